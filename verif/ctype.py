"""Independent C11 typing of the dialect's syntax trees (verif/cparse.py forms).

Used to restrict the attribution of a disagreement to the listed cast finding: a conversion
`signed S -> wider unsigned T` may only be blamed where C itself performs that conversion at a
conversion point of the source (plus the one documented implementation widening: a returned value
is stored in the unsigned 64-bit ret_val)."""
import json
import os
import re

from . import common

INT = (True, 32)
UINT = (False, 32)


def literal_type(text, suf):
    v = int(text, 0)
    suf = suf.upper()
    is_hex = text.lower().startswith("0x")
    uns = "U" in suf
    w = 64 if "LL" in suf else 32
    if not uns:
        if w == 32 and v < (1 << 31):
            return (True, 32)
        if w == 32 and is_hex and v < (1 << 32):
            return (False, 32)
        if v < (1 << 63):
            return (True, 64)
        return (False, 64)
    if w == 32 and v < (1 << 32):
        return (False, 32)
    return (False, 64)


def named_type(ty):
    ty = ty.replace("const", "").strip()
    ty = re.sub(r"\s+", " ", ty)
    if ty in ("int", "signed", "signed int"):
        return (True, 32)
    if ty in ("unsigned", "unsigned int"):
        return (False, 32)
    m = re.fullmatch(r"(u?)int(8|16|32|64)_t", ty)
    if m:
        return (m.group(1) != "u", int(m.group(2)))
    m = re.fullmatch(r"size([1248])([su])_t", ty)
    if m:
        return (m.group(2) == "s", int(m.group(1)) * 8)
    return None


def promote(t):
    if t is None:
        return None
    return INT if t[1] < 32 else t


def common_type(a, b):
    if a is None or b is None:
        return None
    if a[0] == b[0]:
        return (a[0], max(a[1], b[1]))
    u, s = (a, b) if not a[0] else (b, a)
    if u[1] >= s[1]:
        return (False, u[1])
    return (True, s[1])


_SIGS = None


def signatures():
    """name -> (ret, [param types]) from the repository's documented resources"""
    global _SIGS
    if _SIGS is not None:
        return _SIGS
    sigs = {}
    base = os.path.join(common.REPO, "Resources/Hexagon")
    try:
        sr = json.load(open(os.path.join(base, "sub_routines.json")))["sub_routines"]
        for n, r in sr.items():
            ps = []
            for p in r["params"]:
                ps.append(named_type(p.rsplit(" ", 1)[0].replace("*", "").strip()) if not re.search(r"Hex|Rz", p) else "ext")
            sigs[n] = (named_type(r["return_type"]), ps)
        mc = json.load(open(os.path.join(base, "qemu_rzil_macros.json")))["macros"]
        for n, r in mc.items():
            ps = [named_type(p.split(" ")[0]) if not re.search(r"Hex|Rz|float|double", p) else "ext" for p in r["params"]]
            sigs[n] = (named_type(r["return_type"]), ps)
    except Exception:
        pass
    _SIGS = sigs
    return sigs


class Typer:
    def __init__(self, extra_sigs=None, params=None, ret=None):
        self.env = [dict(params or {})]
        self.sigs = dict(signatures())
        if extra_sigs:
            self.sigs.update(extra_sigs)
        self.convs = []  # (src, dst) conversions C performs (only src/dst both known)
        self.ret = ret
        self.unknown = 0

    def conv(self, src, dst):
        if src is not None and dst is not None and src != "ext" and dst != "ext":
            self.convs.append((src, dst))

    def lookup(self, name):
        for e in reversed(self.env):
            if name in e:
                return e[name]
        if name in ("EA", "i", "j", "k"):
            return UINT
        return None

    def expr(self, t):
        if not isinstance(t, tuple) or not t:
            return None
        k = t[0]
        if k == "num":
            try:
                return literal_type(t[1], t[2])
            except Exception:
                return None
        if k == "reg":
            cls, ids = t[1], t[2]
            pair = len(ids) == 2
            if cls == "P":
                return (True, 16 if pair else 8)
            return (True, 64 if pair else 32)
        if k == "imm":
            return (t[1] in "rRsS", 32)
        if k == "alias":
            return (False, 64 if t[1] in ("UPCYCLE", "PKTCOUNT", "UTIMER") else 32)
        if k == "xreg":
            nm = t[1]
            if nm[0] == "P":
                return (True, 8)
            return (True, 64 if ":" in nm else 32)
        if k == "id":
            r = self.lookup(t[1])
            if r is None:
                self.unknown += 1
            return r
        if k == "bin":
            op = t[1]
            a, b = self.expr(t[2]), self.expr(t[3])
            if op in ("<<", ">>"):
                return promote(a)
            if op in ("&&", "||"):
                return INT
            pa, pb = promote(a), promote(b)
            c = common_type(pa, pb)
            self.conv(pa, c)
            self.conv(pb, c)
            if op in ("<", ">", "<=", ">=", "==", "!="):
                return INT
            return c
        if k == "un":
            a = self.expr(t[2])
            if t[1] == "!":
                return INT
            return promote(a)
        if k == "cast":
            a = self.expr(t[2])
            T = named_type(t[1])
            self.conv(a, T)
            return T
        if k == "cond":
            self.expr(t[1])
            a, b = self.expr(t[2]), self.expr(t[3])
            pa, pb = promote(a), promote(b)
            c = common_type(pa, pb)
            self.conv(pa, c)
            self.conv(pb, c)
            return c
        if k == "assign":
            l, r = self.expr(t[2]), self.expr(t[3])
            op = t[1]
            if op == "=":
                self.conv(r, l)
                return l
            if op in ("<<=", ">>="):
                self.conv(promote(l), l)
                return l
            pl, pr = promote(l), promote(r)
            c = common_type(pl, pr)
            self.conv(pl, c)
            self.conv(pr, c)
            self.conv(c, l)
            return l
        if k in ("post", "pre"):
            return self.expr(t[2])
        if k == "call":
            name = t[1]
            args = [self.expr(a) for a in t[2:]]
            if name == "sizeof":
                return (False, 64)
            sig = self.sigs.get(name)
            if sig is None:
                self.unknown += 1
                return None
            ret, ps = sig
            for a, p in zip(args, ps):
                self.conv(a, p)
            return ret
        if k == "load":
            for a in t[3:]:
                self.expr(a)
            return (t[1] == "s", int(t[2]))
        if k == "jump":
            for a in t[1:]:
                self.conv(self.expr(a), UINT)
            return None
        if k == "stmtexpr":
            self.env.append({})
            r = None
            for it in t[1:-1]:
                self.stmt(it)
            last = t[-1]
            if isinstance(last, tuple) and last and last[0] == "expr":
                r = self.expr(last[1])
            else:
                self.stmt(last)
            self.env.pop()
            return r
        if k in ("comma",):
            self.expr(t[1])
            return self.expr(t[2])
        if k in ("str", "fnum", "nop", "member", "index"):
            return None
        self.unknown += 1
        return None

    def stmt(self, t):
        if not isinstance(t, tuple) or not t:
            return
        k = t[0]
        if k == "decl":
            T = named_type(t[1])
            self.env[-1][t[2]] = T
            if len(t) == 4:
                self.conv(self.expr(t[3]), T)
        elif k == "expr":
            self.expr(t[1])
        elif k == "if":
            self.expr(t[1])
            for b in t[2:]:
                self.block(b)
        elif k == "for":
            self.env.append({})
            self.stmt(t[1])
            if t[2] is not None:
                self.expr(t[2])
            if t[3] is not None:
                self.expr(t[3])
            self.block(t[4])
            self.env.pop()
        elif k == "block":
            self.env.append({})
            for s in t[1:]:
                self.stmt(s)
            self.env.pop()
        elif k == "store":
            a = [self.expr(x) for x in t[3:]]
            if len(a) == 2:
                self.conv(a[1], (False, int(t[2])))
        elif k == "return":
            if len(t) > 1:
                r = self.expr(t[1])
                self.conv(r, self.ret)
                # documented implementation widening: the value travels in the unsigned 64-bit ret_val
                self.conv(r, (False, 64))
        elif k in ("fbody",):
            for s in t[1:]:
                self.stmt(s)
        elif k in ("empty", "cancel_slot", "break", "continue"):
            pass
        else:
            # expression used as statement (jump, call ...)
            self.expr(t)

    def block(self, b):
        if isinstance(b, tuple) and b and b[0] == "block":
            self.stmt(b)
        else:
            self.env.append({})
            self.stmt(b)
            self.env.pop()


def sext_conversions(src: str, subs=()):
    """multiset (list) of (src_width, dst_width) for conversions signed -> WIDER unsigned that C performs in
    `src` and in the bodies of the given sub-routines [(name, ret, params, body)]. None if the text cannot be read."""
    from . import cparse as CP

    extra = {}
    for name, ret, params, body in subs:
        ps = []
        for p in params:
            ty = p.rsplit(" ", 1)[0].replace("*", "").strip()
            ps.append(named_type(ty) if not re.search(r"Hex|Rz", p) else "ext")
        extra[name] = (named_type(ret), ps)
    out = []
    try:
        ty = Typer(extra)
        ty.stmt(CP.parse(src))
        convs = list(ty.convs)
        for name, ret, params, body in subs:
            penv = {}
            for p in params:
                if not re.search(r"Hex|Rz", p):
                    penv[p.rsplit(" ", 1)[1]] = named_type(p.rsplit(" ", 1)[0].strip())
            t2 = Typer(extra, params=penv, ret=named_type(ret))
            t2.stmt(CP.parse(body))
            convs += t2.convs
    except CP.ParseError:
        return None
    for s, d in convs:
        if s and d and s != "ext" and d != "ext" and s[0] and not d[0] and d[1] > s[1]:
            out.append((s[1], d[1]))
    return out
