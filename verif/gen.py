"""E4 - program generators over the supported dialect. All randomness from the rng passed in.

Generated programs are architecturally valid: one operand slot letter is used with one register
class and width only (ISA2REG is keyed by the letter alone).
  32-bit sources RsV RtV, 64-bit sources RuuV RvvV, predicate source PwV,
  32-bit destination ReV, 64-bit destination RddV, read-write RxV (32) RyyV (64), immediates siV uiV."""
import random

TYPES = ["int8_t", "uint8_t", "int16_t", "uint16_t", "int32_t", "uint32_t", "int64_t", "uint64_t"]
TW = {"int8_t": 8, "uint8_t": 8, "int16_t": 16, "uint16_t": 16, "int32_t": 32, "uint32_t": 32, "int64_t": 64, "uint64_t": 64}
TS = {t: not t.startswith("u") for t in TYPES}
BINOPS = ["+", "-", "*", "&", "|", "^"]
CMPS = ["<", "<=", ">", ">=", "==", "!="]
SRC32 = ["RsV", "RtV"]
SRC64 = ["RuuV", "RvvV"]
LITS = [0, 1, 2, 3, 5, 7, 8, 15, 16, 31, 32, 0x7F, 0x80, 0xFF, 0x100, 0x7FFF, 0x8000, 0xFFFF, 0x10000, 0x12345, 0x7FFFFFFF]


def src_for(t):
    return "RuuV" if TW[t] == 64 else "RsV"


def src2_for(t):
    return "RvvV" if TW[t] == 64 else "RtV"


class G:
    """Random statement/expression generator. `avoid` masks constructs out of the dialect:
    logical, calls, mem, postfix, div, stmtexpr, narrow_compound, ternary, loops, shifts_narrow"""

    def __init__(self, rng: random.Random, avoid=()):
        self.r = rng
        self.avoid = set(avoid)
        self.locals = {}
        self.loopvars = ["i", "j", "k"]
        self.depth_loop = 0
        self.stores = 0

    def lit(self):
        v = self.r.choice(LITS)
        suf = self.r.choice(["", "", "", "U", "LL", "ULL"]) if "suffix" not in self.avoid else ""
        return (hex(v) if self.r.random() < 0.5 else str(v)) + suf

    def leaf(self):
        c = self.r.random()
        if c < 0.45 and self.locals:
            return self.r.choice(list(self.locals))
        if c < 0.62:
            pool = ["RsV", "RtV", "RuuV", "RvvV", "PwV", "uiV", "siV"]
            if "alias" not in self.avoid:
                pool += ["HEX_REG_ALIAS_LR", "HEX_REG_ALIAS_GP", "HEX_REG_ALIAS_UPCYCLE"]
            return self.r.choice(pool)
        if c < 0.7 and self.depth_loop:
            return self.loopvars[self.r.randrange(self.depth_loop)]
        return self.lit()

    def expr(self, d):
        if d <= 0 or self.r.random() < 0.22:
            return self.leaf()
        c = self.r.random()
        if c < 0.33:
            return f"({self.expr(d - 1)} {self.r.choice(BINOPS)} {self.expr(d - 1)})"
        if c < 0.43:
            return f"({self.expr(d - 1)} {self.r.choice(CMPS)} {self.expr(d - 1)})"
        if c < 0.53:
            sh = self.r.choice(["<<", ">>"])
            amt = self.r.choice([str(self.r.randint(0, 7)), f"({self.expr(d - 1)} & {self.r.choice([7, 15, 31])})", f"({self.expr(d - 1)} {self.r.choice(CMPS)} {self.expr(d - 1)})", f"(!{self.leaf()})"])
            lhs = self.expr(d - 1)
            if "shifts_narrow" in self.avoid or self.r.random() < 0.6:
                lhs = f"(({self.r.choice(['uint32_t', 'uint64_t', 'int32_t', 'int64_t'])}) {lhs})"
            return f"({lhs} {sh} {amt})"
        if c < 0.63:
            return f"(({self.r.choice(TYPES)}) {self.expr(d - 1)})"
        if c < 0.70:
            return f"({self.r.choice(['~', '-'])}{self.expr(d - 1)})"
        if c < 0.76 and "logical" not in self.avoid:
            return f"({self.expr(d - 1)} {self.r.choice(['&&', '||'])} {self.expr(d - 1)})"
        if c < 0.80 and "logical" not in self.avoid:
            return f"(!{self.expr(d - 1)})"
        if c < 0.88 and "ternary" not in self.avoid:
            lhs = self.expr(d - 1) if "const_cond" not in self.avoid else self.r.choice(["RsV", "RtV", "PwV", "uiV", "siV"])
            return f"(({lhs} {self.r.choice(CMPS)} {self.expr(d - 1)}) ? {self.expr(d - 1)} : {self.expr(d - 1)})"
        if c < 0.91 and "calls" not in self.avoid:
            f = self.r.choice(["clz32", "clo32", "fbrev", "revbit32", "clz64", "clo64", "revbit64", "revbit16"])
            return f"{f}({self.expr(d - 1)})"
        if c < 0.94 and "macros" not in self.avoid:
            k = self.r.random()
            if k < 0.3:
                st, ln = self.r.choice([(0, 16), (8, 8), (0, 32), (16, 16), (4, 7), (0, 1), (31, 1)])
                return f"{self.r.choice(['sextract64', 'extract64'])}({self.expr(d - 1)}, {st}, {ln})"
            if k < 0.5:
                st, ln = self.r.choice([(0, 8), (8, 8), (0, 16), (16, 16), (3, 5)])
                return f"extract32({self.expr(d - 1)}, {st}, {ln})"
            if k < 0.7:
                st, ln = self.r.choice([(0, 8), (8, 8), (0, 16), (16, 16), (32, 32), (5, 9)])
                return f"deposit64({self.expr(d - 1)}, {st}, {ln}, {self.expr(d - 1)})"
            if k < 0.8:
                st, ln = self.r.choice([(0, 8), (8, 8), (0, 16), (16, 16)])
                return f"deposit32({self.expr(d - 1)}, {st}, {ln}, {self.expr(d - 1)})"
            return f"{self.r.choice(['bswap16', 'bswap32', 'bswap64'])}({self.expr(d - 1)})"
        if "mem" not in self.avoid:
            w = self.r.choice(["s8", "u8", "s16", "u16", "s32", "u32", "u64", "s64"])
            cast = {"s8": "size1s_t", "u8": "size1u_t", "s16": "size2s_t", "u16": "size2u_t", "s32": "size4s_t", "u32": "size4u_t", "u64": "size8u_t", "s64": "size8s_t"}[w]
            return f"(({cast})(mem_load_{w}((RsV + {self.r.randint(0, 64)}))))"
        return self.leaf()

    def target(self):
        c = self.r.random()
        if c < 0.55 and self.locals:
            return self.r.choice(list(self.locals))
        return self.r.choice(["ReV", "RddV", "RxV", "RyyV"])

    def assign_ops(self, t):
        ops = ["=", "=", "=", "+=", "-=", "*=", "&=", "|=", "^=", "<<=", ">>="]
        if "div" not in self.avoid:
            ops += ["/=", "%="]
        if t in ("ReV", "RddV"):
            return ["="]
        if t in self.locals and TW[self.locals[t]] < 32 and "narrow_compound" in self.avoid:
            return ["="]
        return ops

    def stmt(self, d):
        c = self.r.random()
        if c < 0.45 or d <= 0:
            t = self.target()
            op = self.r.choice(self.assign_ops(t))
            rhs = self.expr(2)
            if op in ("<<=", ">>="):
                rhs = f"({rhs} & {self.r.choice([7, 15, 31])})"
            if op in ("/=", "%="):
                rhs = f"(({rhs} & 0xff) + 1)"
            return f"{t} {op} {rhs};"
        if c < 0.65:
            s = f"if ({self.expr(2)}) {self.arm(d - 1)}"
            k = self.r.random()
            if k < 0.45:
                s += f" else {self.arm(d - 1)}"
            elif k < 0.6:
                s += f" else if ({self.expr(1)}) {self.arm(d - 1)} else {self.arm(d - 1)}"
            return s
        if c < 0.8 and self.depth_loop < 2 and "loops" not in self.avoid:
            v = self.loopvars[self.depth_loop]
            self.depth_loop += 1
            body = self.block(d - 1)
            self.depth_loop -= 1
            bound = self.r.choice([str(self.r.randint(0, 4)), f"({self.r.choice(['RsV', 'RtV', 'uiV'])} & {self.r.choice([3, 7])})", "((RtV >> 3) & 7) + 1"])
            step = self.r.choice([f"{v}++", f"{v}++", f"{v} += 1", f"{v} = {v} + 1", f"{v} += 2"])
            if "bare_arms" not in self.avoid and ";" not in body.rstrip(";") and not body.startswith(("if", "{", ";")) and self.r.random() < 0.5:
                return f"for ({v} = 0; {v} < {bound}; {step}) {body}"
            return f"for ({v} = 0; {v} < {bound}; {step}) {{ {body} }}"
        if c < 0.86 and self.locals and "postfix" not in self.avoid:
            l = self.r.choice(list(self.locals))
            t = self.target()
            if t == l:
                return f"{l}++;"
            e = self.expr(1)
            if l in e:  # an unsequenced read of the modified variable is undefined in C
                e = self.lit()
            return f"{t} = {l}{self.r.choice(['++', '--'])} + {e};"
        if c < 0.93 and "mem" not in self.avoid:
            w = self.r.choice(["8", "16", "32", "64"])
            self.stores += 1
            return f"mem_store_u{w}((RtV + {self.r.randint(0, 64)}), {self.expr(2)});"
        if c < 0.95:
            return "{ " + self.block(d - 1) + " }"
        if c < 0.985 and "extras" not in self.avoid:
            k = self.r.random()
            if k < 0.25:
                return f"if ({self.expr(1)}) {{ JUMP({self.expr(1)}); }}"
            if k < 0.4:
                return f"if ({self.leaf()} & 1) {{ cancel_slot; }}"
            if k < 0.6:
                return f"uiV = uiV {self.r.choice(['&', '+', '|'])} {self.r.choice(['3', '~3', 'RsV', '0x10'])};"
            if k < 0.8:
                return f"set_usr_field(bundle, HEX_REG_FIELD_USR_OVF, {self.expr(1)} & 1);"
            return f"HEX_REG_ALIAS_LR = {self.expr(1)};"
        return ";"

    def block(self, d):
        return " ".join(self.stmt(d) for _ in range(self.r.randint(1, 3)))

    def arm(self, d):
        """an if/else arm: a braced block, or (1 in 4) one unbraced simple statement.
        Never an unbraced `if` (listed finding dangling_else) or an empty statement (listed finding if_empty_body_is_call)."""
        if "bare_arms" not in self.avoid and self.r.random() < 0.25:
            for _ in range(4):
                s = self.stmt(0 if self.r.random() < 0.6 else d)
                if not s.startswith(("if", "{", ";", "for")):
                    return s
        return "{ " + self.block(d) + " }"

    def program(self, depth=2, nstmts=(1, 5), types=TYPES):
        """-> (text, exports)"""
        self.locals = {}
        decls = []
        for n in range(self.r.randint(1, 4)):
            t = self.r.choice(types)
            name = f"v{n}"
            src = self.r.choice(["RuuV", "RvvV"]) if TW[t] == 64 else self.r.choice(["RsV", "RtV", "RuuV"])
            decls.append(f"{t} {name} = ({t}) {src};")
            self.locals[name] = t
        body = " ".join(self.stmt(depth) for _ in range(self.r.randint(*nstmts)))
        text = "{ " + " ".join(decls) + " " + body + " }"
        return text, [(n, t) for n, t in self.locals.items()]


# --------------------------------------------------------------------------- matrices
BIN_ALL = ["+", "-", "*", "&", "|", "^", "<<", ">>", "<", "<=", ">", ">=", "==", "!=", "&&", "||"]
UN_ALL = ["~", "-", "!"]


def ops_matrix():
    """C02 depth 1: every operator x T1 x T2 (operands narrowed/kept from registers, result widened to 64 bit)."""
    progs = []
    for op in BIN_ALL:
        for t1 in TYPES:
            for t2 in TYPES:
                progs.append((f"{op}|{t1}|{t2}", f"{{ {t1} a = ({t1}) {src_for(t1)}; {t2} b = ({t2}) {src2_for(t2)}; RddV = (int64_t)(a {op} b); }}"))
    for op in UN_ALL:
        for t1 in TYPES:
            progs.append((f"u{op}|{t1}", f"{{ {t1} a = ({t1}) {src_for(t1)}; RddV = (int64_t)({op}a); }}"))
    for t1 in TYPES:
        for t2 in TYPES:
            progs.append((f"?:|{t1}|{t2}", f"{{ {t1} a = ({t1}) {src_for(t1)}; {t2} b = ({t2}) {src2_for(t2)}; RddV = (int64_t)((PwV & 1) ? a : b); }}"))
    return progs


def ops_depth2(rng: random.Random, n: int):
    """C02 depth 2: (a OP1 b) OP2 c with three typed operands."""
    progs = []
    for _ in range(n):
        t1, t2, t3 = (rng.choice(TYPES) for _ in range(3))
        o1, o2 = rng.choice(BIN_ALL), rng.choice(BIN_ALL)
        shape = rng.random()
        c_src = "RttV" if TW[t3] == 64 else "RtV"
        # slot t must keep one width: if b uses RtV/RvvV pick c from the immediates or the predicate
        c_src = rng.choice(["uiV", "siV", "PwV"])
        if shape < 0.5:
            e = f"((a {o1} b) {o2} c)"
        else:
            e = f"(a {o1} (b {o2} c))"
        if rng.random() < 0.3:
            e = f"({rng.choice(UN_ALL)}{e})"
        progs.append((f"{o1}{o2}|{t1}|{t2}|{t3}|{int(shape < 0.5)}",
                      f"{{ {t1} a = ({t1}) {src_for(t1)}; {t2} b = ({t2}) {src2_for(t2)}; {t3} c = ({t3}) {c_src}; RddV = (int64_t){e}; }}"))
    return progs


def ops_pairs(rng: random.Random):
    """C02 depth 2, exhaustive over ordered operator pairs and both association shapes; types random per cell.
    Includes comparison / logical results as operands of every operator (a << (b < c), (a && b) * c ...)."""
    progs = []
    for o1 in BIN_ALL:
        for o2 in BIN_ALL:
            for shape in (0, 1):
                t1, t2, t3 = (rng.choice(TYPES) for _ in range(3))
                c_src = rng.choice(["uiV", "siV", "PwV"])
                e = f"((a {o1} b) {o2} c)" if shape == 0 else f"(a {o1} (b {o2} c))"
                progs.append((f"pair;{o1};{o2};{shape};{t1};{t2};{t3}", f"{{ {t1} a = ({t1}) {src_for(t1)}; {t2} b = ({t2}) {src2_for(t2)}; {t3} c = ({t3}) {c_src}; RddV = (int64_t){e}; }}"))
    for u in UN_ALL:
        for o in BIN_ALL:
            t1, t2 = rng.choice(TYPES), rng.choice(TYPES)
            progs.append((f"upair;{u};{o};{t1};{t2}", f"{{ {t1} a = ({t1}) {src_for(t1)}; {t2} b = ({t2}) {src2_for(t2)}; RddV = (int64_t)({u}(a {o} b)); RyyV = (int64_t)(({u}a) {o} b); }}"))
    return progs


def cast_matrix():
    """C03: all source/target pairs in the conversion contexts that need no sub-routine."""
    progs = []
    for t1 in TYPES:
        for t2 in TYPES:
            progs.append((f"init|{t1}|{t2}", f"{{ {t1} a = ({t1}) {src_for(t1)}; {t2} b = a; RyyV = (int64_t) b; }}"))
            progs.append((f"cast|{t1}|{t2}", f"{{ {t1} a = ({t1}) {src_for(t1)}; RyyV = (int64_t)(({t2}) a); }}"))
            progs.append((f"assign|{t1}|{t2}", f"{{ {t1} a = ({t1}) {src_for(t1)}; {t2} b; b = a; RyyV = (int64_t) b; }}"))
        progs.append((f"wreg32|{t1}", f"{{ {t1} a = ({t1}) {src_for(t1)}; ReV = a; }}"))
        progs.append((f"wreg64|{t1}", f"{{ {t1} a = ({t1}) {src_for(t1)}; RddV = a; }}"))
        progs.append((f"wpred|{t1}", f"{{ {t1} a = ({t1}) {src_for(t1)}; PeV = a; }}"))
        for n in (8, 16, 32, 64):
            progs.append((f"store{n}|{t1}", f"{{ {t1} a = ({t1}) {src_for(t1)}; mem_store_u{n}(RtV, a); }}"))
        # boolean source
        progs.append((f"boolsrc|{t1}", f"{{ {t1} a = (RsV > RtV); RyyV = (int64_t) a; }}"))
        progs.append((f"boolcast|{t1}", f"{{ RyyV = (int64_t)(({t1})(RsV == RtV)); }}"))
        progs.append((f"boolasg|{t1}", f"{{ {t1} a; a = (RsV <= RtV) && (RsV != 5); RyyV = (int64_t) a; ReV = sizeof(a); }}"))
        progs.append((f"boolnot|{t1}", f"{{ {t1} a = !RsV; {t1} b = (RsV || RtV); RyyV = (int64_t) a + b; }}"))
    # boolean source in the narrowing contexts: store widths, predicate write, narrow parameters
    for n in (8, 16, 32, 64):
        progs.append((f"boolstore{n}", f"{{ mem_store_u{n}(RtV, (RsV > RtV)); mem_store_u{n}((RtV + 16), !RsV); mem_store_u{n}((RtV + 32), (RsV && RtV)); }}"))
    progs.append(("boolpred", "{ PeV = (RsV > RtV); }"))
    progs.append(("boolpred2", "{ PeV = !RsV; RddV = PeV; }"))
    progs.append(("boolarg16", "{ ReV = revbit16((RsV > RtV)); RddV = revbit16(!RtV); }"))
    progs.append(("boolarg64", "{ RddV = clz64((RsV > RtV)); ReV = clz32((RsV == RtV)); }"))
    progs.append(("boolreg", "{ ReV = (RsV > RtV); RddV = (RsV < RtV); RxV = !RxV; }"))
    return progs


def compound_conversions():
    """C03: `a op= b` computes in the common type and converts the result back to the type of a, for every pair of types"""
    progs = []
    for t1 in TYPES:
        for t2 in TYPES:
            for op in ("+=", "-=", "*=", "&=", "|=", "^="):
                if op in ("*=", "&=", "^=") and (TYPES.index(t1) + TYPES.index(t2)) % 2:
                    continue
                progs.append((f"cmpd|{t1}|{t2}|{op}", f"{{ {t1} a = ({t1}) {src_for(t1)}; {t2} b = ({t2}) {src2_for(t2)}; a {op} b; RyyV = (int64_t) a; }}"))
        for op in ("+=", "-=", "|="):
            progs.append((f"cmpdreg|{t1}|{op}", f"{{ {t1} a = ({t1}) {src_for(t1)}; a {op} RvvV; RyyV = (int64_t) a; RxV {op} RvvV; }}"))
    return progs


def cast_exports(name):
    """exported locals (name, type) of a cast_matrix / chained_assignments program: their final value AND width are compared"""
    parts = name.split("|")
    if parts[0] in ("init", "assign") and len(parts) == 3:
        return [("a", parts[1]), ("b", parts[2])]
    if parts[0] in ("cast", "wreg32", "wreg64", "wpred", "boolsrc", "boolasg") or parts[0].startswith("store"):
        return [("a", parts[1])] if len(parts) > 1 and parts[1] in TW else []
    if parts[0] == "boolnot":
        return [("a", parts[1]), ("b", parts[1])]
    if parts[0] == "cmpd":
        return [("a", parts[1]), ("b", parts[2])]
    if parts[0] == "cmpdreg":
        return [("a", parts[1])]
    if parts[0] == "chainasg":
        return [("a", parts[1]), ("b", parts[2]), ("c", parts[3])]
    if parts[0] == "chain4":
        return [("a", parts[1]), ("b", parts[2]), ("c", parts[3]), ("d", parts[4])]
    if parts[0] == "chainreg":
        return [("a", parts[1]), ("b", parts[2])]
    return []


def chained_assignments(rng: random.Random, full: bool):
    """C03: `c = b = a` converts a to the type of b and that value to the type of c"""
    progs = []
    for t1 in TYPES:
        for t2 in TYPES:
            t3s = TYPES if full else [rng.choice(["int64_t", "uint64_t"]), rng.choice(TYPES)]
            for t3 in t3s:
                progs.append((f"chainasg|{t1}|{t2}|{t3}", f"{{ {t1} a = ({t1}) {src_for(t1)}; {t2} b; {t3} c; c = b = a; RyyV = (int64_t) c; ReV = b; }}"))
            progs.append((f"chainreg|{t1}|{t2}", f"{{ {t1} a = ({t1}) {src_for(t1)}; {t2} b; RddV = b = a; }}"))
    # chains of three and four assignments (every link converts and stores)
    for t1 in TYPES:
        for _ in range(len(TYPES) if full else 2):
            t2, t3, t4 = rng.choice(TYPES), rng.choice(TYPES), rng.choice(TYPES)
            progs.append((f"chain4|{t1}|{t2}|{t3}|{t4}", f"{{ {t1} a = ({t1}) {src_for(t1)}; {t2} b; {t3} c; {t4} d; d = c = b = a; RyyV = (int64_t) d; ReV = b; RxV = c; }}"))
    progs.append(("chainregs3", "{ RdV = ReV = RxV = RsV + 1; }"))
    progs.append(("chainregs4", "{ RddV = ReV = RxV = PeV = RsV; }"))
    progs.append(("chainregs3if", "{ if (RsV > 0) { ReV = RxV = RyV = RtV; } else { RyV = RxV = ReV = 3; } }"))
    return progs


def cast_chains(rng: random.Random, n: int):
    progs = []
    for _ in range(n):
        ts = [rng.choice(TYPES) for _ in range(rng.randint(2, 4))]
        e = "a"
        for t in ts[1:]:
            e = f"(({t}) {e})"
        progs.append((f"chain|{'|'.join(ts)}", f"{{ {ts[0]} a = ({ts[0]}) {src_for(ts[0])}; RyyV = (int64_t){e}; }}"))
    return progs


# --------------------------------------------------------------------------- generated sub-routines
def sub_item(name, ret, params, body):
    """-> (compile tuple for add_sub_routine, json-shaped dict for the C oracle)"""
    return (name, ret, list(params), body), {name: {"return_type": ret, "params": list(params), "code": body}}


def cast_call_matrix():
    """C03: argument passing and return as conversion contexts (generated sub-routines)."""
    items = []
    k = 0
    for t1 in TYPES:
        for t2 in TYPES:
            k += 1
            # argument: value of type t1 passed to a parameter of type t2
            fn = f"argc{k}"
            sub, cs = sub_item(fn, t2, [f"{t2} p"], "{ return p; }")
            items.append(dict(name=f"arg|{t1}|{t2}", text=f"{{ {t1} a = ({t1}) {src_for(t1)}; {t2} b = {fn}(a); RyyV = (int64_t) b; }}", subs=[sub], c_subs=cs))
            # return: expression of type t1 returned from a function declared to return t2
            fn = f"retc{k}"
            sub, cs = sub_item(fn, t2, [f"{t1} p"], "{ return p; }")
            items.append(dict(name=f"ret|{t1}|{t2}", text=f"{{ {t1} a = ({t1}) {src_for(t1)}; {t2} b = {fn}(a); RyyV = (int64_t) b; }}", subs=[sub], c_subs=cs))
    return items


# --------------------------------------------------------------------------- C05: statements
ASSIGN_OPS = ["=", "+=", "-=", "*=", "/=", "%=", "<<=", ">>=", "&=", "|=", "^="]


def stmt_programs(rng: random.Random, n: int):
    """statement trees: sequences, nested blocks, if/else chains, for loops (zero-trip, nested,
    data-dependent 0..8 trips), every assignment operator on 32/64-bit targets, interleaved
    register / local / memory writes, declarations, empty statements."""
    items = []
    wide = ["int32_t", "uint32_t", "int64_t", "uint64_t"]
    # (1) one program per assignment operator x target kind x target type
    k = 0
    for op in ASSIGN_OPS:
        for t in wide:
            for tgt in ("local", "reg"):
                k += 1
                rhs = rng.choice(["RtV", "uiV", "siV", "(RtV + 3)", "PwV"])
                if op in ("<<=", ">>="):
                    rhs = f"({rhs} & {31 if TW[t] == 32 else 63})"
                if op in ("/=", "%="):
                    rhs = f"(({rhs} & 0xff) + 1)"
                if tgt == "local":
                    text = f"{{ {t} q = ({t}) {src_for(t)}; q {op} {rhs}; RddV = (int64_t) q; }}"
                    ex = [("q", t)]
                else:
                    reg = "RyyV" if TW[t] == 64 else "RxV"
                    if op in ("/=", "%="):
                        rhs = f"(({rng.choice(['RtV', 'uiV', 'RvvV'])} & 0xff) + 1)"
                    text = f"{{ {reg} {op} {rhs}; RddV = (int64_t) {reg}; }}"
                    ex = []
                items.append(dict(name=f"asg;{op};{t};{tgt}", text=text, exports=ex, vkey=f"asg:{op}"))
    # (2) loops with every trip count 0..8, nested, data dependent
    for trips in range(0, 9):
        items.append(dict(name=f"loop;const;{trips}", text=f"{{ int32_t acc = RsV; for (i = 0; i < {trips}; i++) {{ acc = acc * 3 + i; mem_store_u8((RtV + i), acc); }} RddV = acc; ReV = i; }}",
                          exports=[("acc", "int32_t")], vkey="loop:const"))
    items.append(dict(name="loop;data", text="{ uint32_t acc = 0; for (i = 0; i < (uiV & 15); i++) { acc += i * RsV; if (acc & 1) { ReV = acc; } else { acc ^= RtV; } } RddV = acc; }",
                      exports=[("acc", "uint32_t")], vkey="loop:data"))
    items.append(dict(name="loop;nested", text="{ uint64_t acc = RuuV; j = 0; for (i = 0; i < (RsV & 3); i++) { for (j = 0; j < (RtV & 3); j++) { acc = acc + i * 4 + j; } acc <<= 1; } RddV = acc; ReV = i + j; }",
                      exports=[("acc", "uint64_t")], vkey="loop:nested"))
    for step in ("i += 1", "i = i + 1", "i += 2", "i = i + 3"):
        items.append(dict(name=f"loop;step;{step}", text=f"{{ int32_t acc = RsV; for (i = 0; i < (uiV & 15); {step}) {{ acc = acc * 3 + i; mem_store_u8((RtV + i), acc); }} RddV = acc; ReV = i; }}",
                          exports=[("acc", "int32_t")], vkey="loop:step"))
    items.append(dict(name="loop;down", text="{ int32_t acc = 0; for (i = (RsV & 7); i > 0; i--) { acc += i; } RddV = acc; }", exports=[("acc", "int32_t")], vkey="loop:down"))
    items.append(dict(name="loop;declinit", text="{ int32_t acc = 1; int k2; for (k2 = 0; k2 < (RtV & 7); k2 = k2 + 2) { acc *= 3; } RddV = acc; ReV = k2; }", exports=[("acc", "int32_t")], vkey="loop:step2"))
    # (3) if / else chains
    items.append(dict(name="if;chain", text="{ int32_t r = 0; if (RsV > RtV) { r = 1; } else if (RsV == RtV) { r = 2; } else if (RsV < -5) { r = 3; } else { r = 4; } ReV = r; if (r & 1) RddV = RuuV; }",
                      exports=[("r", "int32_t")], vkey="if:chain"))
    items.append(dict(name="if;nested", text="{ int32_t r = RsV; if (r & 1) { if (r & 2) { r += 10; } else { r -= 10; } r *= 2; } else { if (RtV) r = 0; } ReV = r; }", exports=[("r", "int32_t")], vkey="if:nested"))
    items.append(dict(name="if;nonzero", text="{ ReV = 0; if (RsV) { ReV = 1; } if (RuuV) { RddV = 2; } else { RddV = 3; } if (PwV) { RxV = 7; } }", vkey="if:nonzero"))
    items.append(dict(name="order;regmem", text="{ mem_store_u32(RtV, RsV); RxV = mem_load_s32(RtV) + 1; mem_store_u16((RtV + 2), RxV); ReV = mem_load_u32(RtV); RxV = RxV + ReV; }", vkey="order:regmem"))
    items.append(dict(name="order;raw", text="{ ReV = RsV; ReV = ReV + 1; RddV = ReV; RxV = RxV + ReV; RxV = RxV * 2; ; { } { ; } }", vkey="order:raw"))
    items.append(dict(name="order;chain", text="{ int32_t a; int32_t b; a = b = RsV + 1; ReV = a + b; }", exports=[("a", "int32_t"), ("b", "int32_t")], vkey="order:chain"))
    # (4) random statement trees
    for k, text in enumerate(bare_arm_texts()):
        if "bump(" not in text:
            items.append(dict(name=f"bare;{k}", text=text, exports=[("a", "int32_t")], vkey="bare"))
    for nm, text in opname_local_texts():
        items.append(dict(name=f"opname;{nm}", text=text, exports=[(nm, "int32_t")], vkey="opname"))
    # constant conditions of if statements: non-zero selects the then-arm (even, negative, wide, folded, sizeof values)
    for k, c in enumerate(["2", "-2", "(6 - 2)", "0x10", "sizeof(RuuV)", "0x100000000LL", "0", "1", "(~(1 < 2))", "(0x80000000 > 0)", "(1 - 1)", "0x8000000000000000ULL"]):
        items.append(dict(name=f"constif;{k}", text=f"{{ int32_t a = RsV; if ({c}) {{ a = a + 1; }} else {{ a = a - 1; }} if ({c}) ReV = 7; for (i = 0; i < 2; i++) {{ if ({c}) {{ a += 2; }} }} RddV = a; }}",
                          exports=[("a", "int32_t")], vkey="constif"))
    g = G(rng, avoid=("stmtexpr", "const_cond", "suffix"))
    for i in range(n):
        text, ex = g.program(depth=rng.choice([2, 3, 4]), nstmts=(2, 6), types=["int32_t", "uint32_t", "int64_t", "uint64_t", "int32_t", "uint8_t", "int16_t"])
        items.append(dict(name=f"tree{i}", text=text, exports=ex, vkey="tree"))
    return items


# --------------------------------------------------------------------------- C06: hybrids
def bump_sub(name="bump"):
    """by-reference register operand: counts how often the call is executed"""
    return sub_item(name, "int32_t", ["HexInsnPktBundle *bundle", "const HexOp *RxV", "int32_t v"], "{ RxV = RxV + 1; return v + 1; }")


def opname_local_texts():
    """locals whose names are the compiler's base names of operations"""
    out = []
    for nm in ("branch", "seq", "seq_then", "seq_else", "op_ADD", "op_ASSIGN", "op_LT", "op_AND", "cast_st64", "cast_ut32", "empty", "nop", "jump", "cond", "ite_cast_st32",
               "ml", "ms", "gcc_expr", "op_INC", "const_pos_5", "set_return_val", "instruction_sequence"):
        out.append((nm, f"{{ int32_t {nm} = RsV; if ({nm} < RtV) {{ ReV = ({nm} + 5) & RtV; }} else {{ {nm} = {nm} + 1; ReV = 2; }} RddV = (int64_t) {nm}; "
                        f"mem_store_u32(RtV, (RsV > 0) ? {nm} : 7); {nm}++; RxV = {nm}; }}"))
    return out


def bare_arm_texts():
    return ["{ int32_t a = 0; if (RsV != 0) a++; ReV = a; }",
            "{ int32_t a = RtV; if (RsV > 0) a++; else a--; ReV = a; }",
            "{ int32_t a = 5; if (RsV > 0) { a = 1; } else a--; ReV = a; RddV = RsV; }",
            "{ int32_t a = 0; for (i = 0; i < (RtV & 7); i++) if (RsV & (1 << i)) a++; ReV = a; }",
            "{ int32_t a = RsV; for (i = 0; i < (RtV & 3); i++) a++; ReV = a; RddV = i; }",
            "{ int32_t a = 3; if (RsV & 1) a = clz32(RtV); else a = clo32(RtV); ReV = a; }",
            "{ int32_t a = 0; if (RsV & 1) clz32(RtV); else a = 2; ReV = a; }",
            "{ int32_t a = 1; if (RsV & 1) bump(bundle, RxV, 1); ReV = RxV + a; }",
            "{ int32_t a = 1; if (RsV & 1) a = 2; else bump(bundle, RxV, 1); ReV = RxV + a; }",
            "{ int32_t a = RsV; if (RtV > 3) a = ({ ReV = 1; a + 1; }); else ReV = 2; RddV = a; }",
            "{ int32_t a = RsV; if (RtV > 3) if (RtV > 9) a++; ReV = a; }",
            "{ int32_t a = RsV; if (RtV > 3) { if (RtV > 9) a++; else a--; } ReV = a; }",
            "{ int32_t a = RsV; if (RtV > 3) a += 2; else if (RtV < -3) a--; else a++; ReV = a; }",
            "{ int32_t a = RsV & 3; if (RtV & 1) mem_store_u8((RtV + a++), 7); ReV = a; }",
            "{ int32_t a = 0; if (RsV) set_usr_field(bundle, HEX_REG_FIELD_USR_OVF, 1); else a = 1; ReV = a; }"]


def hybrid_programs(rng: random.Random, n: int):
    items = []
    bs, bc = bump_sub()
    T = lambda name, text, ex=(), subs=(), cs=None, vk=None: items.append(dict(name=name, text=text, exports=list(ex), subs=list(subs), c_subs=cs or {}, vkey=vk or name.split(";")[0]))  # noqa
    a32 = [("a", "int32_t")]
    # postfix ++/--: value is the old one, effect once, in order
    T("post;stmt", "{ int32_t a = RsV; a++; ReV = a; a--; a--; RddV = a; }", a32)
    T("post;value", "{ int32_t a = RsV; ReV = a++; RddV = a; }", a32)
    T("post;cond", "{ int32_t a = RsV; if (a++ > 0) { ReV = a; } else { ReV = -a; } RddV = a; }", a32)
    T("post;loopstep", "{ int32_t a = 0; for (i = 0; i < (RsV & 7); i++) { a += 2; } ReV = a; RddV = i; }", a32)
    T("post;inloop", "{ int32_t a = RsV; for (i = 0; i < (RtV & 7); i++) { ReV = a++; } RddV = a; }", a32)
    T("post;index", "{ int32_t a = RsV & 3; mem_store_u8((RtV + a++), 1); mem_store_u8((RtV + a++), 2); ReV = a; }", a32)
    T("post;u8", "{ uint8_t a = (uint8_t) RsV; ReV = a++; RddV = a; }", [("a", "uint8_t")])
    T("post;i64", "{ int64_t a = RuuV; RddV = a--; ReV = (a < 0); }", [("a", "int64_t")])
    T("post;arm", "{ int32_t a = RsV; ReV = (RtV > 0) ? a++ : a--; RddV = a; }", a32)
    # arms and bodies that are one unbraced statement with a side effect
    for k, text in enumerate(bare_arm_texts()):
        T(f"bare;{k}", text, a32, [bs] if "bump(" in text else (), bc if "bump(" in text else None, "bare")
    # hybrids as (converted / computed) arguments of other calls, depending on earlier statements or loop state
    T("arg;conv", "{ int32_t a = RsV | 0x100; ReV = conv_round(clo32(~a), 0); RddV = a; }", a32, vk="arg")
    T("arg;post", "{ int32_t a = RsV & 0xff; ReV = clo32(a++); RddV = a; }", a32, vk="arg")
    T("arg;expr", "{ int32_t a = RsV + 5; ReV = clo32(~revbit32(a)); RddV = clz64(clz32(a) + 1); }", a32, vk="arg")
    T("arg;loop", "{ int32_t a = 0; for (i = 0; i < (RtV & 7); i = i + clz32((uint8_t) clo32(~i))) { a += 1; if (a > 6) { i = 100; } } ReV = a; RddV = i; }", a32, vk="arg")
    T("arg;loop2", "{ int32_t a = RsV; for (i = 0; i < 3; i++) { a = conv_round(clz32(a + i), 0) + a; } ReV = a; }", a32, vk="arg")
    T("arg;bump", "{ int32_t a = RsV & 7; a = a + 1; ReV = clo32(~bump(bundle, RxV, a)); RddV = RxV; }", a32, [bs], bc, "arg")
    T("arg;se", "{ int32_t a = RsV; a += 2; ReV = clz32((uint16_t) ({ a = a * 3; a; })); RddV = a; }", a32, vk="arg")
    # value-producing operations in a loop CONDITION (listed finding loop_condition_hybrid_once) and, as controls, in init / step / body
    T("loopcond;call", "{ int32_t a = RsV | 1; int32_t n = 0; for (i = 0; i < clz32(a); i++) { a = a << 1; n++; } ReV = n; }", a32, vk="loopcond")
    T("loopcond;post", "{ int32_t a = RsV & 7; int32_t n = 0; for (i = 0; i < a--; i++) { n += 3; } ReV = n; RddV = a; }", a32, vk="loopcond")
    T("loopcond;se", "{ int32_t a = RsV; for (i = 0; i < ({ a = a + 1; 3; }); i++) { ReV = a; } RddV = a; }", a32, vk="loopcond")
    T("loopcond;ctl", "{ int32_t a = RsV | 1; int32_t n = clz32(a); for (i = 0; i < n; i = i + clz32(a) - 30) { a = (a << 1) | 1; } ReV = i; RddV = a; }", a32, vk="loopcond")
    # a statement-expression whose value is a comparison, used as condition / operand of a logical operator
    T("se;boolif", "{ int32_t a = 0; if (({ a = RsV; a > 0; })) { ReV = a; } RddV = a; }", a32, vk="se;bool")
    T("se;boolcond", "{ int32_t a = 0; ReV = ({ a = RsV; a > RtV; }) ? 3 : 4; RddV = a; }", a32, vk="se;bool")
    T("se;boolop", "{ int32_t a = 0; ReV = ({ a = RsV; a > 0; }) && RtV; RddV = !({ a = a + 1; a == 5; }) + a; }", a32, vk="se;bool")
    # expression statements whose VALUE is dropped but which contain an operation with an effect
    T("vless;post", "{ int32_t a = RsV; RtV + a++; ReV = a; }", a32, vk="vless")
    T("vless;cast", "{ int32_t a = RsV; (int64_t) a--; ReV = a; }", a32, vk="vless")
    T("vless;cmp", "{ int32_t a = RsV; a++ == 3; ReV = a; RddV = RsV; }", a32, vk="vless")
    T("vless;reg", "{ RtV + RxV++; ReV = RxV; }", vk="vless")
    T("vless;bump", "{ bump(bundle, RxV, 1) + 1; ReV = RxV; }", (), [bs], bc, "vless")
    T("vless;block", "{ int32_t a = RsV; { a++ + 1; } if (RtV) { 2 * a--; } ReV = a; }", a32, vk="vless")
    # a folded-away arm that is an operation whose operand is another such operation (rejected or translated, never half-built)
    T("deadnest;call", "{ ReV = 0 ? clz32(clo32(RsV)) : RtV; }", vk="deadnest")
    T("deadnest;call2", "{ ReV = 1 ? RtV : fbrev(clz32(RsV) + clo32(RtV)); RddV = clz32(RsV); }", vk="deadnest")
    T("deadnest;post", "{ int32_t a = RsV; ReV = 0 ? clz32(a++) : RtV; RddV = a; }", a32, vk="deadnest")
    # calls: return value, unused value, nested, in conditions / arguments / arms
    T("call;value", "{ ReV = clz32(RsV) + 1; }")
    T("call;unused", "{ ReV = RsV; clz32(RsV); RddV = ReV; }")
    T("call;two", "{ ReV = clo32(RsV) + clo32(RtV); }")
    T("call;three", "{ ReV = clo32(RsV) + clz32(RtV) * fbrev(RsV); RddV = clz64(RuuV) - clo64(RvvV); }")
    T("post;two", "{ int32_t a = RsV; int32_t b = RtV; ReV = a++ + b--; RddV = a + b; }", [("a", "int32_t"), ("b", "int32_t")])
    T("post;seq", "{ int32_t a = RsV; ReV = (a++ > 0) ? a++ : 0; RddV = a; }", a32)
    T("call;arg", "{ ReV = clz32(fbrev(RsV)); RddV = clz64(revbit64(RuuV)); }")
    T("call;cond", "{ if (clz32(RsV) > 16) { ReV = 1; } else { ReV = clo32(RtV); } }")
    T("call;arm", "{ ReV = (RsV > 0) ? clz32(RsV) : clo32(RsV); }")
    T("call;loop", "{ int32_t a = 0; for (i = 0; i < (RtV & 3); i++) { a += clz32(RsV + i); } ReV = a; }", a32)
    T("call;init", "{ uint32_t a = clz32(RsV); uint64_t b = clz64(RuuV); ReV = a + b; }", [("a", "uint32_t"), ("b", "uint64_t")])
    T("bump;once", "{ int32_t a = bump(bundle, RxV, RsV); ReV = a; }", a32, [bs], bc, "bump")
    T("bump;unused", "{ bump(bundle, RxV, RsV); ReV = RxV; bump(bundle, RxV, 1); }", (), [bs], bc, "bump")
    T("bump;twice", "{ ReV = bump(bundle, RxV, RsV) + bump(bundle, RxV, RtV); }", (), [bs], bc, "bump")
    T("bump;arm", "{ ReV = (RsV > 0) ? bump(bundle, RxV, 1) : 7; }", (), [bs], bc, "bump")
    T("bump;cond", "{ if (RsV & 1) { ReV = bump(bundle, RxV, RtV); } else { ReV = 3; } }", (), [bs], bc, "bump")
    T("bump;loop", "{ int32_t a = 0; for (i = 0; i < (RsV & 7); i++) { a += bump(bundle, RxV, i); } ReV = a; }", a32, [bs], bc, "bump")
    T("bump;order", "{ ReV = RxV; RxV = RxV * 2; bump(bundle, RxV, 0); RddV = RxV; }", (), [bs], bc, "bump")
    # statement-expressions
    T("se;value", "{ int32_t a = RsV; ReV = ({ a = a + 1; a * 2; }); RddV = a; }", a32)
    T("se;arm1", "{ int32_t a = RsV; ReV = (RtV > 0) ? ({ a = a + 1; a; }) : 5; RddV = a; }", a32)
    T("se;arm2", "{ int32_t a = RsV; ReV = (RtV > 0) ? 5 : ({ a = a - 1; a; }); RddV = a; }", a32)
    T("se;botharms", "{ int32_t a = RsV; int32_t b = RtV; ReV = (RuuV > 0) ? ({ a = a + 1; a; }) : ({ b = b + 1; b; }); RddV = a + b; }", [("a", "int32_t"), ("b", "int32_t")])
    T("se;usr", "{ ReV = (RsV > 100) ? ({ set_usr_field(bundle, HEX_REG_FIELD_USR_OVF, 1); 100; }) : RsV; }")
    T("se;init", "{ int32_t a = ({ ReV = RsV; RsV + 1; }); RddV = a; }", a32)
    for vt in TYPES:
        T(f"se;else;{vt}", f"{{ int32_t a = 0; {vt} b = ({vt}) RtV; ReV = (RsV == 0) ? 1 : ({{ a = 7; b; }}); RddV = a; }}", a32, vk="se;narrow")
        T(f"se;then;{vt}", f"{{ int32_t a = 0; {vt} b = ({vt}) RtV; ReV = (RsV > 5) ? ({{ a = a + 3; b; }}) : 9; RddV = a; }}", a32, vk="se;narrow")
        T(f"se;cast;{vt}", f"{{ int32_t a = 0; ReV = (RsV > 5) ? ({{ a = 1; ({vt}) RtV; }}) : RtV; RddV = a; }}", a32, vk="se;narrow")
        T(f"post;val;{vt}", f"{{ {vt} b = ({vt}) RsV; RddV = b++; ReV = b--; RyyV = b; }}", [("b", vt)], vk="post;types")
        T(f"call;ret;{vt}", f"{{ {vt} b = ({vt}) RsV; ReV = (RtV > 0) ? clz32(b) : clo32(b); RddV = clz64(b); }}", [("b", vt)], vk="call;types")
    # random mixtures: 0..4 hybrids
    g = G(rng, avoid=("stmtexpr", "const_cond", "mem"))
    for i in range(n):
        text, ex = g.program(depth=rng.choice([2, 3]), nstmts=(2, 5), types=["int32_t", "uint32_t", "int64_t", "int16_t", "uint8_t"])
        items.append(dict(name=f"mix{i}", text=text, exports=ex, vkey="mix"))
    return items


# --------------------------------------------------------------------------- C08: generated sub-routines
def gen_subroutine(rng: random.Random, name: str, callable_subs=()):
    """random sub-routine: parameter/return types over the 8 integer types, locals (prefixed with the
    routine's name, like the bundled ones), a branch with a return in both arms or a straight return,
    optionally a nested call. -> (compile tuple, c json dict, signature)"""
    nparams = rng.randint(1, 3)
    ptypes = [rng.choice(TYPES) for _ in range(nparams)]
    ret = rng.choice(TYPES)
    params = [f"{t} p{k}" for k, t in enumerate(ptypes)]
    pn = [f"p{k}" for k in range(nparams)]

    def e(d):
        if d <= 0 or rng.random() < 0.3:
            return rng.choice(pn + [str(rng.choice([1, 2, 3, 7, 0x80, 0xFF, 0x100]))] + locs)
        c = rng.random()
        if c < 0.5:
            return f"({e(d - 1)} {rng.choice(BINOPS)} {e(d - 1)})"
        if c < 0.65:
            return f"(({rng.choice(TYPES)}) {e(d - 1)})"
        if c < 0.8:
            return f"({e(d - 1)} >> ({e(d - 1)} & 7))"
        if c < 0.9 and callable_subs:
            f, fsig = rng.choice(callable_subs)
            return f"{f}({', '.join(e(d - 1) for _ in fsig)})"
        # the condition always names a parameter: constant conditions are folded (listed findings of C09 are masked here)
        return f"(({rng.choice(pn)} {rng.choice(CMPS)} {e(d - 1)}) ? {e(d - 1)} : {e(d - 1)})"

    locs = []
    stmts = []
    for k in range(rng.randint(0, 2)):
        t = rng.choice(TYPES)
        ln = f"{name}_l{k}"
        stmts.append(f"{t} {ln} = {e(2)};")
        locs.append(ln)
    if locs and rng.random() < 0.5:
        stmts.append(f"{rng.choice(locs)} {rng.choice(['+=', '^=', '=', '-='])} {e(2)};")
    if rng.random() < 0.5:
        stmts.append(f"if ({e(1)} {rng.choice(CMPS)} {e(1)}) {{ return {e(2)}; }} else {{ {(rng.choice(locs) + ' += 1; ') if locs else ''}return {e(2)}; }}")
    else:
        stmts.append(f"return {e(2)};")
    body = "{ " + " ".join(stmts) + " }"
    sub, cs = sub_item(name, ret, params, body)
    return sub, cs, ptypes


def call_programs(rng: random.Random, n: int):
    items = []
    for i in range(n):
        nsubs = rng.randint(1, 3)
        subs, csubs, sigs = [], {}, []
        for k in range(nsubs):
            name = f"g{i}s{k}"
            sub, cs, ptypes = gen_subroutine(rng, name, callable_subs=[(s[0], sg) for s, sg in zip(subs, [x[1] for x in sigs])] + [("clz32", ["uint32_t"]), ("fbrev", ["uint32_t"])])
            subs.append(sub)
            csubs.update(cs)
            sigs.append((name, ptypes))
        # call site: 1..4 calls per expression, calls as arguments of calls
        args = ["RsV", "RtV", "RuuV", "RvvV", "uiV", "siV", "PwV", "a"]

        def call(depth):
            nm, pt = rng.choice(sigs)
            aa = []
            for _ in pt:
                if depth > 0 and rng.random() < 0.3:
                    aa.append(call(depth - 1))
                else:
                    aa.append(rng.choice(args))
            return f"{nm}({', '.join(aa)})"

        ncalls = rng.randint(1, 4)
        expr = " ".join(f"{call(1)} {rng.choice(BINOPS)}" for _ in range(ncalls - 1)) + " " + call(1)
        t = rng.choice(TYPES)
        text = f"{{ {t} a = ({t}) {src_for(t)}; int64_t r = {expr}; RddV = r; ReV = a; }}"
        items.append(dict(name=f"calls{i}", text=text, exports=[("a", t), ("r", "int64_t")], subs=subs, c_subs=csubs, aged=rng.choice([0, 0, 1, 7, 40]), vkey="calls"))
    return items


# --------------------------------------------------------------------------- C09: compile-time evaluation
def literal_spellings():
    """(spelling, python value, valid C?) around the type boundaries"""
    out = []
    centers = [0, 1, 2 ** 7, 2 ** 8, 2 ** 15, 2 ** 16, 2 ** 31, 2 ** 32, 2 ** 63]
    vals = sorted({c + d for c in centers for d in (-1, 0, 1) if c + d >= 0} | {2 ** 64 - 1, 5, 0x7F7F, 0xDEADBEEF})
    for v in vals:
        for base in ("d", "x"):
            for suf in ("", "U", "LL", "ULL"):
                sp = (str(v) if base == "d" else hex(v)) + suf
                # decimal constants that do not fit long long are not valid ISO C; signed suffixes need the value to fit
                if base == "d" and suf in ("", "LL") and v >= 2 ** 63:
                    continue
                out.append((sp, v))
    return out


def fold_programs(rng: random.Random, n: int):
    items = []
    T = lambda name, text, ex=(), vk=None, **kw: items.append(dict(name=name, text=text, exports=list(ex), vkey=vk or name.split(";")[0], **kw))  # noqa
    lits = literal_spellings()
    # (1) the type of a literal: implicit widening, sizeof, mixing with a 64-bit register, comparison with -1
    for sp, v in lits:
        T(f"lit;widen;{sp}", f"{{ RddV = {sp}; }}", vk="lit:widen")
        T(f"lit;add64;{sp}", f"{{ RddV = {sp} + RuuV; }}", vk="lit:add64")
        T(f"lit;sizeof;{sp}", f"{{ ReV = sizeof({sp}); }}", vk="lit:sizeof")
        T(f"lit;cmpneg;{sp}", f"{{ ReV = (RsV < {sp}); RddV = (-1 < {sp}); }}", vk="lit:cmp")
        T(f"lit;shr;{sp}", f"{{ RddV = ({sp} >> 1) + (({sp}) >> (RsV & 7)); }}", vk="lit:shr")
    # (2) folded operators on literals
    small = ["0", "1", "2", "5", "7", "8", "0x7f", "0x80", "0xff", "0x7fffffff", "0x80000000", "0xffffffff", "5U", "1LL", "0x80000000U", "3ULL", "0xffffffffU", "2147483647", "2147483648", "4294967295", "4294967296"]
    for op in ("+", "-", "*"):
        for _ in range(max(6, n // 12)):
            a, b = rng.choice(small), rng.choice(small)
            T(f"fold;{op};{a};{b}", f"{{ RddV = {a} {op} {b}; ReV = sizeof({a} {op} {b}); }}", vk=f"fold:{op}")
    for op in ("-", "+", "~"):
        for a in small:
            T(f"foldu;{op};{a}", f"{{ RddV = {op}({a}); RyyV = ({op}{a}) + RuuV; }}", vk=f"foldu:{op}")
            T(f"foldu2;{op};{a}", f"{{ RddV = {op}{op}({a}); ReV = sizeof({op}{a}); }}", vk=f"foldu2:{op}")
    # (2b) a folded value used again in a wider type, as a constant condition, and as operand of a second folded operator:
    # the first result must already have the value it has in its own C type (wrap-around of unsigned 32-bit arithmetic)
    tails = ["+ 0ULL", "+ 0LL", "- 0x8000ULL", "* 3LL", "+ RuuV"]
    firsts = [f"({u}{a})" for u in ("-", "~") for a in ("1U", "0xffffffffU", "0x80000000U", "5", "0", "0x7fffffff", "1ULL", "0x80000000")]
    firsts += [f"({a} {op} {b})" for op in ("+", "-", "*") for a, b in (("2U", "0x80000000U"), ("0", "1U"), ("0xffffffffU", "2"), ("0x10000", "0x10000U"), ("1", "2U"), ("0xffffffff", "0xffffffff"),
                                                                         ("3U", "0x55555556U"), ("5", "7"), ("0x7fffffffU", "0x7fffffffU"), ("4294967296", "2U"))]
    # unary operator on a folded binary result (the literal that is finally spelled must fit its type)
    firsts += [f"({u}({a} {op} {b}))" for u in ("-", "~") for op, a, b in (("-", "256ULL", "0xffffULL"), ("-", "0", "1U"), ("*", "2U", "0x80000000U"), ("+", "0xffffffffffffffffULL", "2"),
                                                                         ("-", "1LL", "0x7fffffffffffffffLL"), ("+", "0x7fffffff", "1U"), ("-", "5", "7"))]
    # unary operators on a folded comparison (its value is the int 0 / 1)
    firsts += ["(~(1 == 1))", "(+(2 > 1))", "(-(1 < 2))", "(~(1 == 2))", "(-(sizeof(RsV) == 4))", "(!(1 == 1))", "(~(0x80000000 > 0))", "(-(-1 < 0U))"]
    for f in firsts:
        for k, tl in enumerate(tails):
            T(f"fold2;{f};{k}", f"{{ RddV = {f} {tl}; }}", vk="fold2")
        T(f"fold2;{f};cond", f"{{ RddV = {f} ? RuuV : RvvV; ReV = ({f} ? 1 : 2) + (({f} == 0) ? 4 : 8); }}", vk="fold2c")
        T(f"fold2;{f};cmp", f"{{ ReV = ({f} < 1) + (({f} > 0x7fffffff) << 1) + (({f} < -1) << 2) + (({f} == 0xffffffffU) << 3); RddV = sizeof({f}); }}", vk="fold2c")
    lefts = ["-1", "-5", "0", "5", "-(1U)", "~0U", "-(5U)", "(0xffffffff + 1)", "0x7fffffff", "0x80000000", "-1LL", "~0ULL", "(2147483647 + 1)", "sizeof(RsV)", "(1 < 2)"]
    rights = ["0", "-1", "5U", "0U", "0LL", "5LL", "-1LL", "1ULL", "0xffffffff", "0xffffffffU", "4294967296", "-(1U)", "~0U"]
    for a in lefts:
        for b in rights:
            e = " + ".join(f"(({a} {op} {b}) << {k})" for k, op in enumerate(CMPS))
            T(f"foldc;{a};{b}", f"{{ ReV = {e}; RddV = ({a} < {b}) ? RuuV : RvvV; RyyV = ({a} >= {b}) ? 1 : RuuV; }}", vk="foldc")
    # (3) constant ?: ; sizeof of every operand type
    for c in ("1", "0", "(2 > 1)", "(0x80000000 > 0)", "(1 ? 0 : 1)", "sizeof(RsV) == 4"):
        T(f"cond;{c}", f"{{ RddV = {c} ? RuuV : RvvV; ReV = {c} ? 3 : RsV; }}", vk="cond")
    T("sizeof;bool", "{ ReV = sizeof(RsV > RtV) + sizeof(!RsV) * 16 + sizeof(RsV && RtV) * 256 + sizeof(1 == 1) * 4096 + sizeof(!(2 > 1)) * 65536; RddV = sizeof((RsV > 1) + 1) + sizeof(RuuV == RvvV) * 16; }", vk="sizeof")
    for t in TYPES:
        T(f"sizeof;{t}", f"{{ {t} q = ({t}) RsV; ReV = sizeof(q) + sizeof(RsV) * 16 + sizeof(RuuV) * 256 + sizeof(PwV) * 4096; RddV = sizeof(siV); }}", [("q", t)], vk="sizeof")
    # (4) division: exact results may be folded or rejected, inexact and zero division must be rejected
    for a, b, must in (("8", "2", False), ("7", "2", True), ("1", "0", True), ("0", "5", False), ("9", "3", False), ("10", "4", True), ("5U", "0U", True), ("1LL", "3", True),
                       ("0x7ffffffffffffffeLL", "2", False), ("0xffffffffffffffffULL", "3", False), ("0x7fffffffffffffffLL", "2", True), ("9007199254740993LL", "1", False),
                       ("0xfffffffffffffffdULL", "0xfffffffffffffffdULL", False), ("18014398509481985LL", "2", True), ("0x8000000000000001ULL", "0x10", True)):
        T(f"div;{a};{b}", f"{{ RddV = {a} / {b}; }}", vk="div", must_reject=must)
    # remainder of constants: may be rejected, a folded result has the sign of the dividend
    for a, b in (("7", "3"), ("(-7)", "3"), ("7", "(-3)"), ("(-7)", "(-3)"), ("(-2147483647)", "10"), ("8", "4"), ("0xffffffffU", "7"), ("(-1)", "2U"), ("(-9223372036854775807LL)", "10")):
        T(f"mod;{a};{b}", f"{{ RddV = {a} % {b}; }}", vk="mod")
    # (5) dead operands of a constant ?: that live code also uses
    dead = [
        ("reg_before", "{ ReV = RsV + RtV; RddV = 1 ? RuuV : RtV; }"),
        ("reg_after", "{ RddV = 0 ? RtV : RuuV; ReV = RsV + RtV; }"),
        ("reg_same", "{ RddV = (RsV ^ RuuV) + (1 ? RuuV : RuuV); }"),
        ("reg_only_dead", "{ RddV = 1 ? RuuV : RtV; }"),
        ("expr_dead", "{ RddV = 1 ? RuuV : (RtV + 5); ReV = RsV; }"),
        ("local_dead", "{ int32_t q = RsV; RddV = 0 ? q : RuuV; ReV = q; }"),
        ("local_only_dead", "{ int32_t q = RsV; RddV = 0 ? q : RuuV; }"),
        ("call_dead", "{ ReV = clz32(RsV); RddV = 1 ? RuuV : clz32(RsV); }"),
        ("call_only_dead", "{ RddV = 1 ? RuuV : clz32(RsV); ReV = RtV; }"),
        ("se_dead", "{ int32_t q = RsV; RddV = 1 ? RuuV : ({ q = q + 1; q; }); ReV = q; }"),
        ("imm_dead", "{ RddV = 1 ? RuuV : siV; ReV = siV + uiV; }"),
        ("nested", "{ RddV = 1 ? (0 ? RtV : RuuV) : RsV; ReV = RsV + RtV; }"),
        ("lit_dead", "{ RddV = 1 ? RuuV : 0x7; ReV = 0x7 + RsV; }"),
        ("postfix_dead", "{ int32_t q = RsV; RddV = 0 ? q++ : RuuV; ReV = q; }"),
        ("postfix_dead2", "{ int32_t q = RsV; RddV = 1 ? RuuV : q--; ReV = q; }"),
        ("postfix_dead3", "{ int32_t q = 0; ReV = (0 ? q++ : RsV); }"),
        # both arms value-producing operations, more such operations afterwards (temporaries keep their numbers and guards)
        ("hyb_both0", "{ int32_t q = RsV; int32_t j = RtV; int32_t k = 7; ReV = ((0 != 0) ? q++ : j++) + k++; RddV = (int64_t) q * 65536 + j * 256 + k; }"),
        ("hyb_both1", "{ int32_t q = RsV; int32_t j = RtV; int32_t k = 7; ReV = (1 ? q++ : j++) + k++; RddV = (int64_t) q * 65536 + j * 256 + k; }"),
        ("hyb_calls", "{ int32_t q = RsV; ReV = (0 ? clz32(q) : clo32(q)) + clz32(RtV) * 64 + revbit32(q); }"),
        ("hyb_then_se", "{ int32_t q = RsV; int32_t j = RtV; ReV = (0 ? q++ : j++); RxV = (RtV > 0) ? ({ q = q + 4; q; }) : j; RddV = (int64_t) q * 256 + j; }"),
        ("se_cond_dead", "{ RddV = 1 ? RuuV : ((RtV > 2) ? ({ RxV = RtV + 5; RxV; }) : RsV); }"),
        ("hyb_nested", "{ int32_t q = RsV; int32_t j = RtV; ReV = (0 ? (1 ? q++ : j++) : (0 ? q-- : j--)) + q++; RddV = (int64_t) q * 256 + j; }"),
    ]
    for nm, text in dead:
        T(f"dead;{nm}", text, ([("q", "int32_t")] if "q =" in text else []) + ([("j", "int32_t")] if "j =" in text else []) + ([("k", "int32_t")] if "k =" in text else []), vk="dead:" + nm)
    return items
