"""Shared plumbing: environment, verdicts, evidence, known findings, replay files.

Nothing in here imports the repository under test.
"""
import hashlib
import json
import os
import sys
import time

VERIF_DIR = os.path.dirname(os.path.dirname(os.path.abspath(__file__)))
REPO = os.path.abspath(os.environ.get("VERIF_REPO", "/repo"))
CACHE_DIR = os.path.join(VERIF_DIR, ".cache")
EVIDENCE_DIR = os.path.join(VERIF_DIR, "evidence")
REPLAY_DIR = os.path.join(VERIF_DIR, "replays")
KNOWN_FINDINGS = os.path.join(VERIF_DIR, "known_findings.json")
NPROC = int(os.environ.get("VERIF_NPROC", str(os.cpu_count() or 4)))


def seed() -> int:
    try:
        return int(os.environ.get("VERIF_SEED", "1"))
    except ValueError:
        return 1


def sha(*parts) -> str:
    h = hashlib.sha256()
    for p in parts:
        if isinstance(p, str):
            p = p.encode()
        h.update(p)
        h.update(b"\0")
    return h.hexdigest()


def log(*a):
    print(*a, file=sys.stderr, flush=True)


LEVEL_KEYS = {
    "exploration": ("evaluations", "distinct_nontrivial", "rule", "samples"),
    "fault_enumeration": ("evaluations", "distinct_nontrivial", "rule", "samples"),
    "translation_validation": ("programs", "disagreements_checked", "samples"),
}


def validate_evidence(ev: dict) -> list[str]:
    """Hand-written check of the parts of EVIDENCE.schema.json this framework uses."""
    errs = []
    for k in ("property_id", "tier", "seed", "level", "coverage", "wall_s"):
        if k not in ev:
            errs.append(f"missing {k}")
    if errs:
        return errs
    if ev["tier"] not in ("quick", "thorough"):
        errs.append("tier")
    if not isinstance(ev["seed"], int):
        errs.append("seed")
    cov = ev["coverage"]
    lvl = ev["level"]
    if lvl in ("exploration", "fault_enumeration"):
        if not (isinstance(cov.get("evaluations"), int) and cov["evaluations"] >= 1):
            errs.append("evaluations>=1")
        if not (isinstance(cov.get("distinct_nontrivial"), int) and cov["distinct_nontrivial"] >= 2):
            errs.append("distinct_nontrivial>=2")
        if not isinstance(cov.get("rule"), str):
            errs.append("rule")
        if not (isinstance(cov.get("samples"), list) and len(cov["samples"]) >= 1):
            errs.append("samples")
    elif lvl == "translation_validation":
        if not (isinstance(cov.get("programs"), int) and cov["programs"] >= 1):
            errs.append("programs>=1")
        if not (isinstance(cov.get("disagreements_checked"), int) and cov["disagreements_checked"] >= 0):
            errs.append("disagreements_checked")
        if not (isinstance(cov.get("samples"), list) and len(cov["samples"]) >= 1):
            errs.append("samples")
    else:
        errs.append(f"level {lvl} not used by this framework")
    return errs


def load_known_findings(prop: str) -> list[dict]:
    """Open (unfixed) findings recorded for a property. The file is never written at run time."""
    try:
        with open(KNOWN_FINDINGS) as f:
            data = json.load(f)
    except FileNotFoundError:
        return []
    return [e for e in data.get("findings", []) if prop in e.get("properties", [e.get("property")]) and e.get("status") == "open"]


class Run:
    """One run of one check: collects violations, known-finding hits, inconclusive notes,
    coverage counters; writes evidence and replay files; decides the exit code."""

    def __init__(self, prop: str, level: str, tier: str):
        self.prop = prop
        self.level = level
        self.tier = tier
        self.seed = seed()
        self.t0 = time.time()
        self.violations = []  # (summary, replay_path)
        self.kf_hits = {}  # mechanism -> count
        self.kf_samples = {}
        self.inconclusive = []
        self.coverage = {}
        self.assumptions = []
        self.findings = {e["mechanism"]: e for e in load_known_findings(prop)}
        self._viol_keys = set()

    # ---------------------------------------------------------------- results
    def violation(self, summary: str, replay: dict, key: str | None = None):
        """Record a violation. `key` de-duplicates repeated reports of one cause."""
        if key is not None:
            if key in self._viol_keys:
                return
            self._viol_keys.add(key)
        if len(self.violations) >= 50:
            self.violations.append((summary, ""))
            return
        os.makedirs(os.path.join(REPLAY_DIR, self.prop), exist_ok=True)
        name = f"{self.tier}-{self.seed}-{len(self.violations):03d}.json"
        path = os.path.join(REPLAY_DIR, self.prop, name)
        replay = dict(replay)
        replay.setdefault("property", self.prop)
        replay.setdefault("summary", summary)
        replay.setdefault("seed", self.seed)
        replay.setdefault("tier", self.tier)
        with open(path, "w") as f:
            json.dump(replay, f, indent=1, default=str)
        self.violations.append((summary, path))

    def known(self, mechanism: str, sample=None) -> bool:
        """Attribute an observation to a listed open finding. Returns False (caller must then
        report a violation) when the mechanism is not listed for this property."""
        if mechanism not in self.findings:
            return False
        self.kf_hits[mechanism] = self.kf_hits.get(mechanism, 0) + 1
        if sample is not None and mechanism not in self.kf_samples:
            self.kf_samples[mechanism] = sample
        return True

    def note_inconclusive(self, why: str):
        if len(self.inconclusive) < 200:
            self.inconclusive.append(why)

    # ---------------------------------------------------------------- finish
    def finish(self, coverage: dict, hard_inconclusive: str | None = None):
        cov = dict(coverage)
        cov.setdefault("known_finding_hits", dict(self.kf_hits))
        cov.setdefault("inconclusive_cases", len(self.inconclusive))
        if self.inconclusive:
            cov.setdefault("inconclusive_examples", self.inconclusive[:5])
        ev = {
            "property_id": self.prop,
            "tier": self.tier,
            "seed": self.seed,
            "level": self.level,
            "coverage": cov,
            "assumptions": self.assumptions,
            "wall_s": round(time.time() - self.t0, 2),
            "violations": len(self.violations),
        }
        errs = validate_evidence(ev)
        os.makedirs(EVIDENCE_DIR, exist_ok=True)
        with open(os.path.join(EVIDENCE_DIR, f"{self.prop}.json"), "w") as f:
            json.dump(ev, f, indent=1, default=str)
            f.write("\n")
        for mech, n in sorted(self.kf_hits.items()):
            e = self.findings[mech]
            print(f"KNOWN-FINDING: property={self.prop} {mech}: {e['what_fails']} (seen {n}x this run)")
        if self.violations:
            for summary, path in self.violations:
                print(f"VIOLATION property={self.prop} replay={path} :: {summary}")
            print(f"{self.prop}: {len(self.violations)} violation(s); evidence in evidence/{self.prop}.json")
            sys.stdout.flush()
            sys.exit(1)
        if hard_inconclusive or errs:
            why = hard_inconclusive or ("evidence incomplete: " + ", ".join(errs))
            print(f"INCONCLUSIVE property={self.prop} {why}")
            sys.stdout.flush()
            sys.exit(2)
        print(f"{self.prop}: held on everything explored ({self.tier}, seed {self.seed}, {ev['wall_s']} s); "
              f"evidence in evidence/{self.prop}.json")
        sys.stdout.flush()
        sys.exit(0)
