"""Differential execution: emitted IL (E2e) vs behaviour text compiled as C (E3)."""
import random
import re

from . import common, harness
from . import coracle as CO
from . import ilfront as IL

CW = {"int8_t": (8, True), "uint8_t": (8, False), "int16_t": (16, True), "uint16_t": (16, False), "int32_t": (32, True),
      "uint32_t": (32, False), "int64_t": (64, True), "uint64_t": (64, False), "int": (32, True), "unsigned": (32, False)}


class Prog:
    """One program to compare: src (behaviour text), rzil (emitted text), exports [(local, ctype)],
    c_subs (json-shaped extra sub-routines for the C side), il_sub_defs (DEF texts of extra subs)."""

    def __init__(self, name, src, rzil, exports=(), c_subs=None, il_sub_defs=None, tag=None, extra=None):
        self.name = name
        self.src = src
        self.rzil = rzil
        self.exports = list(exports)
        self.c_subs = c_subs or {}
        self.il_sub_defs = il_sub_defs or {}
        self.tag = tag
        self.extra = extra or {}


class ProgResult:
    def __init__(self):
        self.ok = 0
        self.ub = 0
        self.diff = 0
        self.ilsort = 0
        self.unmodelled = 0
        self.defuse = 0
        self.fail_states = []  # (state index, kind, detail)
        self.notes = {}
        self.syntax = None
        self.c_invalid = None
        self.arms_total = 0
        self.arms_seen = 0
        self.trips = set()
        self.changed = 0  # executions in which some observable differed from the initial state
        self.ops = set()
        self.calls = 0
        self.hyb_reads = 0
        self.kf_used = set()
        self.clang_mismatch = 0
        self.diff_keys = set()
        self.refdiff = 0  # executions in which the C text disagrees with the reference model of the program (extra["ref_fn"])
        self.refchecked = 0

    @property
    def compared(self):
        return self.ok + self.diff

    def verdict(self):
        if self.syntax:
            return "ilsyntax"
        if self.diff:
            return "diff"
        if self.refdiff:
            return "refdiff"
        if self.ilsort:
            return "ilsort"
        if self.defuse:
            return "defuse"
        if self.ok == 0:
            return "none_compared"
        return "ok"


def il_final(m, ops, st, exports):
    """observable final state from the IL machine, as a dict comparable with c_final()"""
    out = {}
    jf = m.locals.get("jump_flag", ("bool", False))
    out["jump_flag"] = 1 if (jf[0] == "bool" and jf[1]) or (jf[0] == "bv" and jf[2]) else 0
    if out["jump_flag"]:
        jt = m.locals.get("jump_target")
        out["jump_target"] = jt[2] if jt and jt[0] == "bv" and jt[1] == 32 else ("bad", jt)
    out["cancelled"] = m.cancelled
    for a, v0 in zip(CO.ALIASES, st["al"]):
        w = 64 if a in CO.ALIAS64 else 32
        out["alias:" + a] = m.written.get("alias:" + a, v0) & ((1 << w) - 1)
    known = {"alias:" + a for a in CO.ALIASES}
    for o, v0 in zip(ops, st["vals"]):
        if o["kind"] == "imm":
            continue
        known.add(o["key"])
        if not o["writable"]:
            continue
        out[o["tok"]] = m.written.get(o["key"], v0) & ((1 << o["w"]) - 1)
    for k in m.written:
        if k not in known:
            out["unexpected_write:" + k] = m.written[k]
    out["mem"] = dict(m.mem)
    for n, ct in exports:
        w, _ = CW[ct]
        v = m.locals.get(n)
        if v is None:
            out["local:" + n] = "unset"
        elif v[0] != "bv":
            out["local:" + n] = ("sort", v[0])
        else:
            out["local:" + n] = ("w", v[1], v[2]) if v[1] != w else v[2]
    return out


def c_final(r, ops, st, exports):
    out = {"jump_flag": r["jump_flag"], "cancelled": r["cancelled"]}
    if r["jump_flag"]:
        out["jump_target"] = r["jump_target"]
    for a, v in zip(CO.ALIASES, r["al"]):
        w = 64 if a in CO.ALIAS64 else 32
        out["alias:" + a] = v & ((1 << w) - 1)
    for o, v in zip(ops, r["vals"]):
        if o["kind"] == "imm" or not o["writable"]:
            continue
        out[o["tok"]] = v & ((1 << o["w"]) - 1)
    out["mem"] = r["mem"]
    for (n, ct), v in zip(exports, r["locals"]):
        w, _ = CW[ct]
        out["local:" + n] = v & ((1 << w) - 1)
    return out


def initial_obs(ops, st, exports):
    out = {"jump_flag": 0, "cancelled": 0}
    for a, v in zip(CO.ALIASES, st["al"]):
        w = 64 if a in CO.ALIAS64 else 32
        out["alias:" + a] = v & ((1 << w) - 1)
    for o, v in zip(ops, st["vals"]):
        if o["kind"] == "imm" or not o["writable"]:
            continue
        out[o["tok"]] = v & ((1 << o["w"]) - 1)
    out["mem"] = {}
    return out


def diff_obs(a, b):
    d = []
    for k in sorted(set(a) | set(b)):
        if a.get(k) != b.get(k):
            va, vb = a.get(k), b.get(k)
            if k == "mem":
                keys = sorted(set(va) | set(vb))
                bad = [(hex(x), va.get(x), vb.get(x)) for x in keys if va.get(x) != vb.get(x)][:4]
                d.append(("mem", bad))
            else:
                d.append((k, hex(va) if isinstance(va, int) else va, hex(vb) if isinstance(vb, int) else vb))
    return d


def eval_prog(term, ops, st, subs, repair=()):
    """-> (kind, payload): ('final', obs, machine) | ('ilsort', msg) | ('unmodelled', msg) | ('defuse', name)"""
    m = IL.Machine(st, CO.slot_widths(ops), subs, repair=repair)
    ev = IL.Ev(m)
    try:
        if term != ("NOP",):
            ev.effect(term, None)
    except IL.Unmodelled as e:
        return "unmodelled", str(e), m
    except IL.ILTypeError as e:
        return "ilsort", str(e), m
    except IL.DefUseError as e:
        return "defuse", str(e), m
    except RecursionError:
        return "unmodelled", "recursion", m
    return "final", None, m


def run_differential(progs, base_il_defs: dict, base_c_subs: dict, nstates: int, seed: int,
                     clang_check=False, keep_states=False, repair=()):
    """Returns (results: list[ProgResult], info dict). progs: list[Prog]."""
    info = {"programs": len(progs), "selftest_ok": None, "c_rewritten": [], "c_invalid": {}}
    results = [ProgResult() for _ in progs]
    if not progs:
        return results, info
    extra_c = {}
    for p in progs:
        extra_c.update(p.c_subs)
    parts = [dict(name=p.name, text=p.src, exports=p.exports) for p in progs]
    orc = CO.Oracle(parts, base_c_subs, cc="gcc", opt="-O0", extra_subs=extra_c)
    if orc.exe is None:
        info["oracle_error"] = orc.err
        orc.close()
        return results, info
    info["selftest_ok"] = orc.selftest_ok
    info["selftest_failures"] = getattr(orc, "selftest_failures", [])[:5]
    info["c_rewritten"] = orc.rewritten
    info["c_invalid"] = {progs[i].name: why for i, why in orc.bad.items()}
    cases = []
    for idx, p in enumerate(progs):
        if idx in orc.bad:
            results[idx].c_invalid = orc.bad[idx]
            continue
        ops = orc.oplists[idx]
        # states depend on (seed, program name) only, so a re-run of one program sees the same states
        rng = random.Random(f"{seed}:{p.name}")
        sts = []
        for s in range(p.extra.get("nstates", nstates)):
            sts.append(CO.gen_state(rng, ops))
        fn = p.extra.get("states_fn")
        if fn is not None:
            sts.extend(fn(rng, ops))
        if not p.extra.get("no_edge_states") and (nstates or fn is None):
            sts.extend(CO.edge_states(rng, ops))
        for st in sts:
            cases.append((idx, st))
    cres = orc.run(cases)
    cres2 = None
    if clang_check:
        orc2 = CO.Oracle(parts, base_c_subs, cc="clang", opt="-O1", extra_subs=extra_c)
        if orc2.exe is not None:
            cres2 = orc2.run(cases)
        info["clang_built"] = orc2.exe is not None
        orc2.close()
    oplists = orc.oplists
    orc.close()
    by_prog = {}
    for ci, (idx, st) in enumerate(cases):
        by_prog.setdefault(idx, []).append(ci)

    base_subs = IL.parse_subs(base_il_defs)

    def work(idx):
        p = progs[idx]
        r = ProgResult()
        r.c_invalid = results[idx].c_invalid
        if idx not in by_prog:
            return r
        try:
            body = IL.parse_body(p.rzil)
            term = IL.resolve(body)
            subs = base_subs
            if p.il_sub_defs:
                subs = dict(base_subs)
                subs.update(IL.parse_subs(p.il_sub_defs))
        except IL.ILSyntaxError as e:
            r.syntax = str(e)
            return r
        ops = oplists[idx]
        r.arms_total = IL.count_arms(term, subs)
        cov = {}
        for n, ci in enumerate(by_prog[idx]):
            _, st = cases[ci]
            c = cres[ci]
            if c["ub"]:
                r.ub += 1
                continue
            if cres2 is not None:
                c2 = cres2[ci]
                if not c2["ub"] and (c2["vals"], c2["mem"], c2["al"], c2["jump_flag"], c2["jump_target"], c2["locals"]) != \
                        (c["vals"], c["mem"], c["al"], c["jump_flag"], c["jump_target"], c["locals"]):
                    r.clang_mismatch += 1
                    continue
            kind, msg, m = eval_prog(term, ops, st, subs, repair)
            r.ops |= m.ops
            r.calls += m.calls
            r.hyb_reads += m.hyb_reads
            r.kf_used |= m.kf_used
            for k, v in m.cov.items():
                cov.setdefault(k, set()).update(v)
            if kind == "unmodelled":
                r.unmodelled += 1
                r.notes[msg[:60]] = r.notes.get(msg[:60], 0) + 1
                continue
            if kind == "ilsort":
                r.ilsort += 1
                if len(r.fail_states) < 3:
                    r.fail_states.append((n, "ilsort", msg, _st_brief(st)))
                continue
            if kind == "defuse":
                r.defuse += 1
                if len(r.fail_states) < 3:
                    r.fail_states.append((n, "defuse", msg, _st_brief(st)))
                continue
            io = il_final(m, ops, st, p.exports)
            co = c_final(c, ops, st, p.exports)
            ref_fn = p.extra.get("ref_fn")
            if ref_fn is not None:
                want = ref_fn(ops, st)
                if want is not None:
                    r.refchecked += 1
                    bad = [(k, v, co.get(k)) for k, v in want.items() if co.get(k) != v]
                    if bad:
                        r.refdiff += 1
                        if len(r.fail_states) < 3:
                            r.fail_states.append((n, "refdiff", bad[:4], _st_brief(st)))
            d = diff_obs(co, io)
            if d:
                r.diff += 1
                r.diff_keys |= {x[0] for x in d}
                if len(r.fail_states) < 3:
                    r.fail_states.append((n, "diff", d[:6], _st_brief(st)))
            else:
                r.ok += 1
                ini = initial_obs(ops, st, p.exports)
                if any(co.get(k) != v for k, v in ini.items()):
                    r.changed += 1
        for (k, _), v in cov.items():
            if k in ("BRANCH", "ITE"):
                r.arms_seen += len(v)
            else:
                r.trips |= v
        r.arms_total = sum(2 for (k, _) in cov if k in ("BRANCH", "ITE"))
        return r

    idxs = list(range(len(progs)))
    out = harness.pmap(work, idxs)
    for i, r in zip(idxs, out):
        if isinstance(r, ProgResult):
            results[i] = r
        else:
            results[i].syntax = f"evaluator crashed: {r}"[:300]
    if keep_states:
        info["cases"] = cases
    return results, info


def _st_brief(st):
    return {"vals": [hex(v) for v in st["vals"]], "imm": {k: hex(v & 0xFFFFFFFF) for k, v in st["imm"].items()},
            "pc": hex(st["pc"]), "memseed": hex(st["memseed"]),
            "old": {k: hex(v) for k, v in st["old"].items() if not k.startswith("alias:")},
            "new": {k: hex(v) for k, v in st["new"].items() if not k.startswith("alias:")},
            "usr": hex(st["al"][CO.ALIASES.index("USR")])}
