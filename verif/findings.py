"""Known-finding attribution (DESIGN section 8).

Counterfactual mechanisms: a *marking wrapper* on the defective call site renames the emitted
macro (CAST -> CAST_KF_<mechanism>) exactly when the mechanism's precondition holds; the evaluator
then re-runs the case with only the marked nodes repaired. A disagreement is attributed to the
finding iff (1) the marked text equals the verdict text once markers are removed, (2) the repaired
run agrees with C on every compared state, (3) a marked node was actually exercised."""
import re

_INSTALLED = False


def install_markers():
    """Called in a forked child only (never in the pristine parent)."""
    global _INSTALLED
    if _INSTALLED:
        return
    _INSTALLED = True
    from rzilcompiler.Transformer.Pures.Cast import Cast

    inner = Cast.il_exec

    def il_exec(self):
        txt = inner(self)
        try:
            src = self.ops[0].value_type
            dst = self.value_type
            sw, dw = int(src._bit_width), int(dst._bit_width)  # mem_store builds types whose width is a str token
            if src._signed and not dst._signed and dw > sw and txt.startswith(f"CAST({dw}, IL_FALSE, "):
                return "CAST_KF_cast_sext(" + txt[len("CAST("):]
        except Exception:
            pass
        return txt

    Cast.il_exec = il_exec


MECHANISMS = ("cast_sext",)


def routine_signature(src: str, subs):
    """listed findings about inlined routine bodies, from the SOURCES of caller and callees (subs: [(name, ret, params, body)]):
       return_does_not_leave  - a callee has a `return` that is not in tail position;
       callee_locals_shared   - a source-level local of a callee (declared name or implicit i/j/k/EA) is also a name the caller or
                                another callee of the program uses.
    -> (mechanism, names) or (None, None)"""
    from . import cparse as CP

    try:
        frames = [("<caller>", CP.parse(src), ())]
        for name, ret, params, body in subs:
            frames.append((name, CP.parse(body), tuple(re.findall(r"\w+", p_)[-1] for p_ in params)))
    except CP.ParseError:
        return None, None
    for name, ast, params in frames[1:]:
        if CP.has_early_return(ast):
            return "return_does_not_leave", [name]
    shared = set()
    for k, (name, ast, params) in enumerate(frames[1:], 1):
        loc = CP.local_names(ast, params)
        for j, (n2, a2, p2) in enumerate(frames):
            if j != k:
                shared |= loc & (CP.used_names(a2) - set(p2) if j else CP.used_names(a2))
    if shared:
        return "callee_locals_shared", sorted(shared)
    return None, None


_BR = None


def _bundled_routines():
    global _BR
    if _BR is None:
        import json
        import os

        from . import common

        try:
            _BR = set(json.load(open(os.path.join(common.REPO, "Resources/Hexagon/sub_routines.json")))["sub_routines"])
        except Exception:
            _BR = set()
    return _BR


def signature(src: str, r, subs=()):
    """Signature classifiers (structural mechanisms). Returns the mechanism name or None.
    The predicate must hold for the source AND the observed discrepancy must be the one described."""
    from . import cparse as CP

    if r.verdict() == "defuse":
        from . import ctype as _ct

        try:
            rt = {n for n in _ct.signatures() if n in _bundled_routines()} | {s_[0] for s_ in subs}
            if CP.valueless_hybrid_statements(CP.parse(src), rt):
                return "valueless_statement_hybrid_hoisted"
        except CP.ParseError:
            pass
        return None
    if r.verdict() != "diff" or not r.diff_keys:
        return None
    if subs:
        mech, _ = routine_signature(src, subs)
        if mech:
            return mech
    if re.search(r"\bHEX_SETROUND\(", src):
        # the statement leaves no trace in the emitted code (listed finding); the conversions that follow use the default rounding mode
        return "setround_dropped"
    try:
        ast = CP.parse(src)
    except CP.ParseError:
        return None
    from . import ctype

    routines = {n for n, (ret, ps) in ctype.signatures().items() if n in _bundled_routines()} | {s_[0] for s_ in subs}
    if CP.valueless_hybrid_statements(ast, routines):
        # the operation inside a value-dropped expression statement is sequenced at the front of the instruction (listed finding)
        return "valueless_statement_hybrid_hoisted"
    if CP.loop_condition_hybrids(ast, routines):
        # the operation is sequenced once in front of the loop instead of with every test of the condition (listed finding)
        return "loop_condition_hybrid_once"
    se, hy = CP.guard_targets(ast)

    def covers(tg):
        keys = set()
        for k in CP.taint_closure(ast, tg):
            keys |= {"jump_flag", "jump_target"} if k == "jump" else {k}
        if any(k.startswith("call:") for k in tg):
            return True  # an unknown callee may write anything it is handed by reference
        return r.diff_keys <= keys

    if se and covers(se):
        return "stmt_expr_guard"
    if hy and covers(hy):
        return "hybrid_arm_unguarded"
    if (se or hy) and covers(se | hy):
        return "stmt_expr_guard" if se else "hybrid_arm_unguarded"
    return None


def redeclared_signature(src: str, probs=None, diff_keys=None):
    """listed finding flat_local_namespace: the source declares a local name more than once (nested or sibling blocks).
    probs (sort problems): every problem must be `local_single_width` of such a name declared with DIFFERENT types.
    diff_keys (differing observables of a differential run): only accepted when a name is redeclared at all (shadowing changes
    what later statements read, so any observable written afterwards may differ)."""
    from . import cparse as CP

    try:
        red = CP.redeclared_locals(CP.parse(src))
    except CP.ParseError:
        return None
    if not red:
        return None
    if probs is not None:
        if not probs:
            return None
        for pr in probs:
            m = re.match(r"local_single_width: local (\w+) ", pr)
            if not m or m.group(1) not in red or len(set(red[m.group(1)])) < 2:
                return None
    return "flat_local_namespace"


def valueless_signature(src: str, probs):
    """listed finding valueless_expression_statement: the source has an expression statement without any effect (`RsV + 1;`) and every
    problem is an operand or operation of such a statement left unused"""
    from . import cparse as CP

    if not src or not probs:
        return None
    try:
        names, kinds = CP.valueless_statements(CP.parse(src))
    except CP.ParseError:
        return None
    if not names and not kinds:
        return None
    for pr in probs:
        m = re.search(r"pure (\w+) initialised but never used", pr)
        if not m:
            return None
        x = m.group(1)
        mo = re.match(r"op_([A-Z]+)_\d+$", x)
        if x in names:
            continue
        if mo:
            k = {"SHIFTR": "RSHIFT", "SHIFTL": "LSHIFT"}.get(mo.group(1), mo.group(1))
            if kinds[k] <= 0:
                return None
            kinds[k] -= 1
        elif not (re.match(r"(cast|ml|cond|ite_cast|const)_\w+_\d+$", x) and sum(kinds.values()) > 0):
            return None
    return "valueless_expression_statement"


def output_signature(src: str, probs):
    """listed finding dead_arm_operand: the source has an unevaluated context (a ?: with a constant condition, a sizeof) and
    every problem is one the finding describes:
      - `identifier X used before/without declaration`: X occurs in an unevaluated context AND live code uses X too;
      - `pure X initialised but never used` / `only used through DUP`: X occurs in an unevaluated context, or is an operation (op_*, cast_*, ml_* ...) - the dead expression itself;
      - `X consumed N times`: X is an immediate of an unevaluated context;
      - an effect left unused is never attributed."""
    from . import cparse as CP

    if not src or not probs:
        return None
    try:
        ast = CP.parse(src)
        names = CP.dead_arm_names(ast)
        live = CP.live_operand_names(ast)
        kinds = CP.dead_nested_kinds(ast)
    except CP.ParseError:
        return None
    if not names and not sum(kinds.values()):
        return None
    for pr in probs:
        m = re.search(r"(identifier|pure|effect|parameter) (\w+) ", pr)
        if not m:
            return None
        kind, x = m.groups()
        if kind == "identifier" and ("declaration" in pr or "used as a pure" in pr):
            if not (x in names and x in live):
                return None
        elif kind == "pure" and ("never used" in pr or "only used through DUP" in pr):
            mo = re.match(r"op_([A-Z]+)_\d+$", x)
            if x in names:
                pass
            elif mo:
                # an operation left behind must be one that hangs BELOW the root of a dead arm (the root itself is removed)
                k = {"SHIFTR": "RSHIFT", "SHIFTL": "LSHIFT"}.get(mo.group(1), mo.group(1))
                if kinds[k] <= 0:
                    return None
                kinds[k] -= 1
            elif re.match(r"(cast|ml|cond|ite_cast|const)_\w+_\d+$", x):
                if sum(kinds.values()) <= 0:
                    return None
            else:
                return None
        elif kind == "pure" and "consumed" in pr:
            if x not in names or len(x) != 1:
                return None
        else:
            return None
    return "dead_arm_operand"
