"""bin/check <ID> [--tier quick|thorough] [--replay FILE]"""
import argparse
import importlib
import os
import sys

HERE = os.path.dirname(os.path.dirname(os.path.abspath(__file__)))


def main():
    ap = argparse.ArgumentParser()
    ap.add_argument("prop")
    ap.add_argument("--tier", default=os.environ.get("VERIF_TIER", "quick"), choices=["quick", "thorough"])
    ap.add_argument("--replay", default=None)
    a = ap.parse_args()
    prop = a.prop.upper()
    try:
        mod = importlib.import_module(f"verif.checks.{prop.lower()}")
    except ModuleNotFoundError as e:
        if e.name and e.name.endswith(prop.lower()):
            print(f"no check for {prop}")
            sys.exit(2)
        raise
    if a.replay:
        sys.exit(mod.replay(a.replay) or 0)
    mod.main(a.tier)


if __name__ == "__main__":
    sys.path.insert(0, HERE)
    os.chdir(HERE)
    main()
