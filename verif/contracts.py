"""Runtime contracts / invariant hooks attached to the real functions of the tree under test.

Attached with setattr from the harness process (no repository edit). Every alias created by
`from x import f` in the repository's modules is rebound too, otherwise calls through those
names would bypass the contract. Contracts *record*; the check that owns the property decides."""
import functools


def c11_ref(sa: bool, wa: int, sb: bool, wb: int) -> tuple[bool, int]:
    """Independent statement of C11 6.3.1.8 with rank = width."""
    if sa == sb:
        return sa, max(wa, wb)
    uw, sw = (wb, wa) if sa else (wa, wb)
    if uw >= sw:
        return False, uw
    return True, sw


def promo_ref(s: bool, w: int) -> tuple[bool, int]:
    return (True, 32) if w < 32 else (s, w)


def snap(t):
    return (t._signed, t._bit_width, t.group, t.external_type, t.format)


def install(trace):
    import lark

    import rzilcompiler.Transformer.RZILTransformer as RT
    import rzilcompiler.Transformer.ValueType as VT
    from rzilcompiler.Transformer.ILOpsHolder import ILOpsHolder
    from rzilcompiler.Transformer.Pures.Cast import Cast

    # ---- C04: c11_cast / promoted_type
    orig_c11 = VT.c11_cast
    orig_promo = VT.promoted_type

    @functools.wraps(orig_c11)
    def c11_cast(a, b):
        before = (snap(a), snap(b))
        ra, rb = orig_c11(a, b)
        trace.c11 += 1
        exp = c11_ref(before[0][0], before[0][1], before[1][0], before[1][1])
        got = ((ra._signed, ra._bit_width), (rb._signed, rb._bit_width))
        if got != (exp, exp):
            trace.contract_violations.append(("c11_cast.table", f"{before[0][:2]} x {before[1][:2]} -> {got}, C11: {exp}"))
        if (snap(a), snap(b)) != before:
            trace.contract_violations.append(("c11_cast.args_modified", f"{before} -> {(snap(a), snap(b))}"))
        return ra, rb

    @functools.wraps(orig_promo)
    def promoted_type(t):
        before = snap(t)
        r = orig_promo(t)
        trace.promo += 1
        exp = promo_ref(before[0], before[1])
        if (r._signed, r._bit_width) != exp:
            trace.contract_violations.append(("promoted_type.table", f"{before[:2]} -> {(r._signed, r._bit_width)}, C11: {exp}"))
        if snap(t) != before:
            trace.contract_violations.append(("promoted_type.arg_modified", f"{before} -> {snap(t)}"))
        return r

    VT.c11_cast = c11_cast
    VT.promoted_type = promoted_type
    RT.c11_cast = c11_cast
    RT.promoted_type = promoted_type

    # ---- C03: Cast.il_exec fill-bit contract (recorded; classified by the check)
    orig_cast_exec = Cast.il_exec

    @functools.wraps(orig_cast_exec)
    def cast_il_exec(self):
        txt = orig_cast_exec(self)
        try:
            src = self.ops[0].value_type
            dst = self.value_type
            trace.casts.append((bool(src._signed), int(src._bit_width), bool(dst._signed), int(dst._bit_width), txt[:80]))
        except Exception:
            pass
        return txt

    Cast.il_exec = cast_il_exec

    # ---- attribute capture: flags as they are when transform() returns (compile_c_stmt resets afterwards)
    orig_transform = RT.RZILTransformer.transform

    @functools.wraps(orig_transform)
    def transform(self, tree):
        try:
            return orig_transform(self, tree)
        finally:
            try:
                trace.meta = list(self.ext.get_meta())
            except Exception:
                trace.meta = None

    RT.RZILTransformer.transform = transform

    # ---- rule coverage
    orig_call = lark.Transformer._call_userfunc

    def _call_userfunc(self, tree, new_children=None):
        d = getattr(tree, "data", None)
        if d is not None:
            d = str(d)
            trace.rules[d] = trace.rules.get(d, 0) + 1
        return orig_call(self, tree, new_children)

    lark.Transformer._call_userfunc = _call_userfunc

    # ---- op creation / removal (C15 conservation, C09 dead-operand monitor)
    orig_add = RT.RZILTransformer.add_op

    @functools.wraps(orig_add)
    def add_op(self, op):
        r = orig_add(self, op)
        try:
            if r is op:
                trace.ops_added.append((type(op).__name__, op.get_name()))
        except Exception:
            pass
        return r

    RT.RZILTransformer.add_op = add_op

    orig_rm = ILOpsHolder.rm_op_by_name

    @functools.wraps(orig_rm)
    def rm_op_by_name(self, name):
        trace.ops_removed.append(str(name))
        return orig_rm(self, name)

    ILOpsHolder.rm_op_by_name = rm_op_by_name

    orig_resolve = RT.RZILTransformer.resolve_hybrid

    @functools.wraps(orig_resolve)
    def resolve_hybrid(self, hybrid):
        r = orig_resolve(self, hybrid)
        try:
            trace.hyb.append((type(hybrid).__name__, hybrid.get_name(), getattr(r, "get_name", lambda: "")()))
        except Exception:
            pass
        return r

    RT.RZILTransformer.resolve_hybrid = resolve_hybrid
