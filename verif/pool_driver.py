"""Child of the C18 check: one Parser.parse run with a patched pool size and an instrumented per-task
function (start/end/pid log, injected delay). Reads a JSON job on stdin, writes a JSON result on stdout."""
import functools
import hashlib
import json
import multiprocessing
import os
import random
import sys
import time


def main():
    job = json.load(sys.stdin)
    repo = job["repo"]
    os.chdir(repo)
    sys.path.insert(0, repo)
    import io
    import contextlib

    with contextlib.redirect_stdout(io.StringIO()):
        import rzilcompiler.Helper as H
    H.LOG_LEVEL = -1
    import rzilcompiler.Parser as PM

    PM.tqdm = lambda it=None, *a, **k: it
    orig = PM.parse_single
    logp = job["log"]
    open(logp, "w").close()
    seed = job["seed"]
    maxd = job["max_delay"]

    def parse_single(bundle):
        rng = random.Random(f"{seed}:{bundle.name}")
        d = rng.random() * maxd if rng.random() < 0.8 else 0.0
        t0 = time.monotonic()
        if rng.random() < 0.5:
            time.sleep(d)
            r = orig(bundle)
        else:
            r = orig(bundle)
            time.sleep(d)
        fd = os.open(logp, os.O_WRONLY | os.O_APPEND)
        os.write(fd, f"{bundle.name} {os.getpid()} {t0:.6f} {time.monotonic():.6f} {d:.4f}\n".encode())
        os.close(fd)
        return r

    parse_single.__module__ = "rzilcompiler.Parser"
    parse_single.__qualname__ = "parse_single"
    PM.parse_single = parse_single
    PM.Pool = functools.partial(multiprocessing.Pool, job["pool_size"])
    tuples = set(job.get("tuple_names", []))

    def one_call(pairs):
        open(logp, "w").close()
        # some behaviours are handed over as tuples (what split_compounds returns) instead of lists
        inp = {k: (tuple(v) if k in tuples else v) for k, v in pairs}
        t0 = time.time()
        out = PM.Parser.parse(inp)
        res = {"order": list(out.keys()), "entries": {}, "wall": time.time() - t0}
        for k, v in out.items():
            res["entries"][k] = {
                "name": v.name,
                "exception": v.exception.name if v.exception else None,
                "digests": [hashlib.sha256(a.pretty().encode()).hexdigest()[:16] for a in v.asts],
                "behaviors": list(v.behaviors),
            }
        res["log"] = [l.split() for l in open(logp)]
        return res

    res = one_call(job["input"])
    # further Parser.parse calls in the SAME process (a call must not depend on earlier calls)
    res["followups"] = [one_call(pairs) for pairs in job.get("followups", [])]
    # the result goes to a file: a parent that waits for the exit before it reads would dead-lock on a full pipe
    if job.get("out"):
        with open(job["out"], "w") as f:
            json.dump(res, f)
    else:
        json.dump(res, sys.stdout)


if __name__ == "__main__":
    main()
