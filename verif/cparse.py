# Throwaway prototype of E6: independent tokenizer + precedence climbing parser for the shortcode dialect,
# and a normaliser for Lark trees to the same s-expression form.
import re

TOKEN = re.compile(r'''\s*(?:
  (?P<fnum>\d+\.\d*(?:[eE][-+]?\d+)?|\.\d+(?:[eE][-+]?\d+)?) |
  (?P<num>0[xX][0-9a-fA-F]+|\d+)(?P<suf>[uUlL]*) |
  (?P<str>"[^"]*") |
  (?P<id>[A-Za-z_]\w*(?::\d+(?:_NEW)?)?) |
  (?P<op>>>=|<<=|\+\+|--|->|&&|\|\||<=|>=|==|!=|<<|>>|[-+*/%&|^]=|[-+*/%&|^~!<>=?:;,(){}\[\].])
)''', re.X)

TYPE_WORDS = {'int', 'unsigned', 'signed', 'void', 'char', 'short', 'long', 'float', 'double', 'const'}
TYPE_RE = re.compile(r'^(u?int(8|16|32|64)_t|size[1248][su]_t)$')
REG_RE = re.compile(r'^([CNPRMQVO])([stuvw]|ss|tt|uu|vv|[de]|dd|[xyz]|xx|yy)([VN])$')
IMM_RE = re.compile(r'^([rRsSuUmn])iV$')
XREG_RE = re.compile(r'^([RCPVQMGS][0-3]{1,2}(?::[0-3]{1,2})?)(_NEW)?$')
ALIAS_RE = re.compile(r'^HEX_REG_ALIAS_([A-Z0-9_]+?)(_NEW)?$')
MEM_RE = re.compile(r'^mem_(load|store)_([su])(8|16|32|64)$')


class ParseError(Exception):
    pass


def tokenize(s):
    out, pos = [], 0
    while pos < len(s):
        if s[pos:].strip() == '':
            break
        m = TOKEN.match(s, pos)
        if not m:
            raise ParseError(f'lex {s[pos:pos+20]!r}')
        pos = m.end()
        if m.group('fnum') is not None:
            out.append(('fnum', m.group('fnum')))
        elif m.group('num') is not None:
            out.append(('num', m.group('num'), m.group('suf')))
        elif m.group('str') is not None:
            out.append(('str', m.group('str')))
        elif m.group('id') is not None:
            out.append(('id', m.group('id')))
        else:
            out.append(('op', m.group('op')))
    return out


def is_type(name):
    return name in TYPE_WORDS or bool(TYPE_RE.match(name))


BIN = [('||',), ('&&',), ('|',), ('^',), ('&',), ('==', '!='), ('<', '>', '<=', '>='), ('<<', '>>'), ('+', '-'), ('*', '/', '%')]
ASSIGN = {'=', '+=', '-=', '*=', '/=', '%=', '<<=', '>>=', '&=', '^=', '|='}


class Parser:
    def __init__(self, toks):
        self.t = toks
        self.i = 0

    def pk(self, k=0):
        return self.t[self.i + k] if self.i + k < len(self.t) else ('eof', '')

    def isop(self, v, k=0):
        t = self.pk(k)
        return t[0] == 'op' and t[1] == v

    def eat(self, v=None):
        t = self.pk()
        if v is not None and not (t[0] == 'op' and t[1] == v):
            raise ParseError(f'expected {v} got {t}')
        self.i += 1
        return t

    # ---- expressions
    def expr(self):
        e = self.assign()
        while self.isop(','):
            self.eat()
            e = ('comma', e, self.assign())
        return e

    def assign(self):
        l = self.cond()
        t = self.pk()
        if t[0] == 'op' and t[1] in ASSIGN:
            self.eat()
            return ('assign', t[1], l, self.assign())
        return l

    def cond(self):
        c = self.binary(0)
        if self.isop('?'):
            self.eat()
            a = self.expr()
            self.eat(':')
            b = self.cond()
            return ('cond', c, a, b)
        return c

    def binary(self, lvl):
        if lvl == len(BIN):
            return self.cast()
        l = self.binary(lvl + 1)
        while self.pk()[0] == 'op' and self.pk()[1] in BIN[lvl]:
            op = self.eat()[1]
            r = self.binary(lvl + 1)
            l = ('bin', op, l, r)
        return l

    def type_name(self):
        words = []
        while self.pk()[0] == 'id' and is_type(self.pk()[1]):
            words.append(self.eat()[1])
        if not words:
            raise ParseError('type expected')
        return ' '.join(words)

    def cast(self):
        if self.isop('(') and self.pk(1)[0] == 'id' and is_type(self.pk(1)[1]):
            self.eat('(')
            ty = self.type_name()
            self.eat(')')
            return ('cast', ty, self.cast())
        return self.unary()

    def unary(self):
        t = self.pk()
        if t[0] == 'op' and t[1] in ('-', '+', '~', '!', '*', '&'):
            self.eat()
            return ('un', t[1], self.cast())
        if t[0] == 'op' and t[1] in ('++', '--'):
            self.eat()
            return ('pre', t[1], self.unary())
        if t == ('id', 'sizeof'):
            # the dialect spells sizeof(x) as a call
            pass
        return self.postfix()

    def postfix(self):
        e = self.primary()
        while True:
            if self.isop('++') or self.isop('--'):
                e = ('post', self.eat()[1], e)
            elif self.isop('['):
                self.eat()
                ix = self.expr()
                self.eat(']')
                e = ('index', e, ix)
            elif self.isop('.') or self.isop('->'):
                op = self.eat()[1]
                e = ('member', op, e, self.eat()[1])
            else:
                return e

    def args(self):
        a = []
        self.eat('(')
        if not self.isop(')'):
            a.append(self.assign())
            while self.isop(','):
                self.eat()
                a.append(self.assign())
        self.eat(')')
        return a

    def primary(self):
        t = self.pk()
        if t[0] == 'num':
            self.eat()
            return ('num', t[1], t[2])
        if t[0] == 'str':
            self.eat()
            return ('str', t[1])
        if t[0] == 'fnum':
            self.eat()
            return ('fnum', t[1])
        if t[0] == 'op' and t[1] == '(':
            if self.isop('{', 1):
                self.eat('(')
                se = self.stmt_expr()
                self.eat(')')
                return se
            self.eat('(')
            e = self.expr()
            self.eat(')')
            return e
        if t[0] == 'id':
            name = self.eat()[1]
            m = MEM_RE.match(name)
            if m and m.group(1) == 'load':
                a = self.args()
                return ('load', m.group(2), m.group(3)) + tuple(a)
            if name == 'JUMP':
                a = self.args()
                return ('jump',) + tuple(a)
            if self.isop('('):
                return ('call', name) + tuple(self.args())
            return classify(name)
        raise ParseError(f'primary {t}')

    def stmt_expr(self):
        self.eat('{')
        items = []
        while not self.isop('}'):
            items.append(self.block_item())
        self.eat('}')
        b = canon_block(items)
        return ('stmtexpr',) + (b[1:] if b[0] == 'block' else (b,))

    # ---- statements
    def block_item(self):
        t = self.pk()
        if t[0] == 'id' and is_type(t[1]):
            ty = self.type_name()
            name = self.eat()[1]
            if self.isop('='):
                self.eat()
                init = self.assign()
                self.eat(';')
                return ('decl', ty, name, init)
            self.eat(';')
            return ('decl', ty, name)
        return self.stmt()

    def stmt(self):
        t = self.pk()
        if t[0] == 'op' and t[1] == '{':
            self.eat()
            items = []
            while not self.isop('}'):
                items.append(self.block_item())
            self.eat('}')
            return canon_block(items)
        if t[0] == 'op' and t[1] == ';':
            self.eat()
            return ('empty',)
        if t == ('id', 'if'):
            self.eat()
            self.eat('(')
            c = self.expr()
            self.eat(')')
            th = self.stmt()
            if self.pk() == ('id', 'else'):
                self.eat()
                return ('if', c, th, self.stmt())
            return ('if', c, th)
        if t == ('id', 'for'):
            self.eat()
            self.eat('(')
            init = ('empty',) if self.isop(';') else None
            if init is None:
                init = self.block_item() if (self.pk()[0] == 'id' and is_type(self.pk()[1])) else ('expr', self.expr())
                if init[0] == 'expr':
                    self.eat(';')
            else:
                self.eat(';')
            cond = None if self.isop(';') else self.expr()
            self.eat(';')
            step = None if self.isop(')') else self.expr()
            self.eat(')')
            return ('for', init, cond, step, self.stmt())
        if t == ('id', 'return'):
            self.eat()
            if self.isop(';'):
                self.eat()
                return ('return',)
            e = self.expr()
            self.eat(';')
            return ('return', e)
        if t[0] == 'id' and t[1] in ('break', 'continue'):
            self.eat()
            self.eat(';')
            return (t[1],)
        if t[0] == 'id' and MEM_RE.match(t[1]) and MEM_RE.match(t[1]).group(1) == 'store':
            m = MEM_RE.match(self.eat()[1])
            a = self.args()
            self.eat(';')
            return ('store', m.group(2), m.group(3)) + tuple(a)
        if t == ('id', 'cancel_slot'):
            self.eat()
            self.eat(';')
            return ('cancel_slot',)
        e = self.expr()
        self.eat(';')
        return ('expr', e)

    def fbody(self):
        items = []
        while self.pk()[0] != 'eof':
            items.append(self.stmt())
        b = canon_block(items)
        return ('fbody',) + (b[1:] if b[0] == 'block' else (b,))


def classify(name):
    m = REG_RE.match(name)
    if m:
        return ('reg', m.group(1), m.group(2), m.group(3) == 'N')
    m = IMM_RE.match(name)
    if m:
        return ('imm', m.group(1))
    m = ALIAS_RE.match(name)
    if m:
        return ('alias', m.group(1), bool(m.group(2)))
    m = XREG_RE.match(name)
    if m:
        return ('xreg', m.group(1), bool(m.group(2)))
    if name == '__NOP':
        return ('nop',)
    return ('id', name)


def parse(text, zero_arg_id=False):
    p = Parser(tokenize(text))
    r = p.fbody()
    if p.i != len(p.t):
        raise ParseError('trailing tokens')
    if zero_arg_id:
        r = _zero_arg(r)
    return r


def _zero_arg(t):
    """emulates the listed grammar divergence: f() is read as the identifier f"""
    if not isinstance(t, tuple):
        return t
    if len(t) == 2 and t[0] == 'call':
        return classify(t[1])
    return tuple(_zero_arg(x) for x in t)


def has_zero_arg_call(t):
    if not isinstance(t, tuple):
        return False
    if len(t) == 2 and t[0] == 'call':
        return True
    return any(has_zero_arg_call(x) for x in t)


# ------------------------------------------------------------------ Lark tree -> same normal form
from lark import Tree, Token

BINRULES = {'multiplicative_expr', 'additive_expr', 'shift_expr', 'relational_expr', 'equality_expr', 'and_expr',
            'exclusive_or_expr', 'inclusive_or_expr', 'logical_and_expr', 'logical_or_expr'}


def tyname(t):
    # type_specifier subtree -> canonical string
    if isinstance(t, Token):
        return str(t)
    if t.data == 'type_specifier':
        return ' '.join(tyname(c) for c in t.children)
    if t.data == 'c_int_type':
        return f'{t.children[0]}{t.children[1]}_t'
    if t.data == 'c_size_type':
        return f'size{t.children[0]}{t.children[1]}_t'
    if t.data in ('specifier_qualifier_list', 'declaration_specifiers'):
        return ' '.join(tyname(c) for c in t.children)
    return t.data + '(' + ' '.join(tyname(c) for c in t.children) + ')'


def norm(t):
    if isinstance(t, Token):
        if t.type == 'ESCAPED_STRING':
            return ('str', str(t))
        return ('tok', t.type, str(t))
    d = t.data
    ch = t.children
    if d == 'fbody':
        its = []
        for c in ch:
            its.extend(items_of(c))
        b = canon_block(its)
        return ('fbody',) + (b[1:] if b[0] == 'block' else (b,))
    if d in BINRULES:
        return ('bin', str(ch[1]), norm(ch[0]), norm(ch[2]))
    if d == 'unary_expr':
        op = str(ch[0])
        if op in ('++', '--'):
            return ('pre', op, norm(ch[1]))
        return ('un', op.strip(), norm(ch[1]))
    if d == 'postfix_expr':
        if len(ch) == 2 and isinstance(ch[1], Token) and str(ch[1]) in ('++', '--'):
            return ('post', str(ch[1]), norm(ch[0]))
        if len(ch) == 3 and isinstance(ch[1], Token) and ch[1].type == 'PTR_OP':
            return ('member', '->', norm(ch[0]), str(ch[2]))
        if len(ch) == 2 and isinstance(ch[1], Token) and ch[1].type == 'IDENTIFIER':
            return ('member', '.', norm(ch[0]), str(ch[1]))
        if len(ch) == 2:
            return ('index', norm(ch[0]), norm(ch[1]))
        return ('postfix?',) + tuple(norm(c) for c in ch)
    if d == 'cast_expr':
        return ('cast', tyname(ch[0]), norm(ch[1]))
    if d == 'conditional_expr':
        return ('cond', norm(ch[0]), norm(ch[1]), norm(ch[2]))
    if d == 'assignment_expr':
        return ('assign', str(ch[1]), norm(ch[0]), norm(ch[2]))
    if d == 'expr':
        return ('comma', norm(ch[0]), norm(ch[1]))
    if d == 'identifier':
        # what the grammar calls an identifier stays one: a register-like text that the grammar did not classify as register is a difference
        return ('id', str(ch[0]))
    if d == 'number':
        return ('num', str(ch[0]), str(ch[1]) if ch[1] else '')
    if d == 'float_number':
        return ('fnum', str(ch[0]))
    if d == 'reg':
        return ('reg', str(ch[0]), str(ch[1]), False)
    if d == 'new_reg':
        return ('reg', str(ch[0]), str(ch[1]), True)
    if d == 'imm':
        return ('imm', str(ch[0]))
    if d == 'reg_alias':
        return ('alias', str(ch[0]), ch[1] is not None)
    if d == 'explicit_reg':
        return ('xreg', str(ch[0]), ch[1] is not None)
    if d == 'sub_routine':
        name = ch[0].children[0] if isinstance(ch[0], Tree) else ch[0]
        return ('call', str(name)) + tuple(norm(c) for c in ch[1:] if c is not None)
    if d == 'macro_expr':
        return ('call', str(ch[0])) + tuple(norm(c) for c in ch[1:] if c is not None)
    if d == 'mem_load':
        return ('load', str(ch[1]), str(ch[2])) + tuple(norm(c) for c in ch[3:])
    if d == 'jump':
        if len(ch) == 1:
            return norm(ch[0])
        return ('jump',) + tuple(norm(c) for c in ch[1:])
    if d == 'nop':
        return ('nop',)
    if d == 'gcc_extended_expr':
        items = []
        for c in ch:
            if c is None:
                continue
            items.extend(items_of(c))
        b = canon_block(items)
        return ('stmtexpr',) + (b[1:] if b[0] == 'block' else (b,))
    return norm_stmt(t)


EXPR_RULES = BINRULES | {'unary_expr', 'postfix_expr', 'cast_expr', 'conditional_expr', 'assignment_expr', 'expr', 'identifier',
                         'number', 'reg', 'new_reg', 'imm', 'reg_alias', 'explicit_reg', 'sub_routine', 'macro_expr', 'mem_load',
                         'gcc_extended_expr'}


def norm_stmt(t):
    if isinstance(t, Token):
        return ('expr', norm(t)) if t.type == 'ESCAPED_STRING' else ('tokstmt', t.type, str(t))
    d = t.data
    ch = t.children
    if d == 'block_item':
        return norm_stmt(ch[0])
    if d == 'block_item_list':
        return canon_block(items_of(t))
    if d == 'compound_stmt':
        its = []
        for c in ch:
            if c is not None:
                its.extend(items_of(c))
        return canon_block(its)
    if d == 'expr_stmt':
        return ('empty',)
    if d == 'cancel_slot_stmt':
        return ('cancel_slot',)
    if d == 'selection_stmt':
        if str(ch[0]) == 'if':
            if len(ch) == 3:
                return ('if', norm(ch[1]), norm_stmt(ch[2]))
            return ('if', norm(ch[1]), norm_stmt(ch[2]), norm_stmt(ch[4]))
        return ('switch',) + tuple(norm_stmt(c) for c in ch[1:])
    if d == 'iteration_stmt':
        if str(ch[0]) == 'for':
            init = norm_stmt(ch[1])
            cond = ch[2]
            cond = None if (isinstance(cond, Tree) and cond.data == 'expr_stmt') else norm(cond)
            if len(ch) == 5:
                return ('for', init, cond, norm(ch[3]), norm_stmt(ch[4]))
            return ('for', init, cond, None, norm_stmt(ch[3]))
        return (str(ch[0]),) + tuple(norm_stmt(c) for c in ch[1:])
    if d == 'jump_stmt':
        if isinstance(ch[0], Token):
            k = str(ch[0])
            if k == 'return':
                return ('return',) + tuple(norm(c) for c in ch[1:])
            return (k,) + tuple(str(c) for c in ch[1:])
        return ('expr', norm(ch[0]))
    if d == 'mem_store':
        return ('store', str(ch[1]), str(ch[2])) + tuple(norm(c) for c in ch[3:])
    if d == 'declaration':
        ty = tyname(ch[0])
        if isinstance(ch[1], Tree) and ch[1].data == 'init_declarator':
            return ('decl', ty, str(ch[1].children[0]), norm(ch[1].children[1]))
        return ('decl', ty, str(ch[1]))
    if d in EXPR_RULES or d in ('jump', 'nop'):
        return ('expr', norm(t))
    return ('?' + d,) + tuple(norm_stmt(c) for c in ch)


def items_of(t):
    if isinstance(t, Tree) and t.data == 'block_item_list':
        out = []
        for c in t.children:
            out.extend(items_of(c))
        return out
    return [norm_stmt(t)]


def canon_block(items):
    flat = []
    for it in items:
        if isinstance(it, tuple) and it and it[0] == 'block':
            flat.extend(it[1:])
        else:
            flat.append(it)
    if len(flat) > 1:
        flat = [x for x in flat if x != ('empty',)] or [('empty',)]
    if len(flat) == 1:
        return flat[0]
    return ('block',) + tuple(flat)


# ------------------------------------------------------------------ source analyses used by the monitors
def subterms(t):
    yield t
    if isinstance(t, tuple):
        for x in t[1:]:
            if isinstance(x, tuple):
                yield from subterms(x)


def write_targets(t):
    """observable keys a (sub)tree may write: register tokens, alias:X, local:name, mem, jump"""
    out = set()
    for n in subterms(t):
        if not isinstance(n, tuple) or not n:
            continue
        k = n[0]
        if k == 'assign' or k in ('post', 'pre'):
            l = n[2] if k == 'assign' else n[2]
            out |= _lvalue_keys(l)
        elif k == 'decl' and len(n) == 4:
            out.add('local:' + n[2])
        elif k == 'store':
            out.add('mem')
        elif k == 'jump':
            out.add('jump')
        elif k == 'call':
            if n[1] == 'set_usr_field':
                out.add('alias:USR')
            elif n[1] == 'fcirc_add' and len(n) > 3:
                out |= _lvalue_keys(n[3])
            elif n[1] == 'STORE_SLOT_CANCELLED':
                out.add('cancelled')
    return out


def _lvalue_keys(l):
    if not isinstance(l, tuple):
        return set()
    if l[0] == 'reg':
        return {f"{l[1]}{l[2]}{'N' if l[3] else 'V'}"}
    if l[0] == 'xreg':
        return {l[1] + ('_NEW' if l[2] else '')}
    if l[0] == 'alias':
        return {'alias:' + l[1]}
    if l[0] == 'id':
        return {'local:' + l[1]}
    return set()


def reads_of(t):
    out = set()
    for n in subterms(t):
        if isinstance(n, tuple) and n and n[0] in ('reg', 'xreg', 'alias', 'id'):
            out |= _lvalue_keys(n)
    return out


def guard_targets(ast):
    """Signatures of the listed findings about value-producing side effects in ?: arms.
    Returns (stmt_expr_targets, hybrid_arm_targets): observables possibly affected.
      stmt_expr_guard: statements of a statement-expression that is (a) an arm of a ?: nested in an arm of
        another ?:, or (b) an arm of a ?: whose condition reads something the arms' statements write;
      hybrid_arm_unguarded: a postfix ++/-- or a call that writes something, inside an arm of ?:.
    In both cases the value of the ?: may be wrong too, so everything the enclosing statement writes is included."""
    se_out, hy_out = set(), set()

    def stmts_of(se):
        return se[1:-1] if len(se) > 2 else ()

    def walk(t, inside_arm, stmt_targets):
        if not isinstance(t, tuple) or not t:
            return
        k = t[0]
        if k in ('expr', 'decl', 'store', 'jump', 'return') and not inside_arm:
            stmt_targets = write_targets_shallow(t)
        if k == 'cond':
            ses = [a for a in t[2:4] if isinstance(a, tuple) and a and a[0] == 'stmtexpr']
            for se in ses:
                w = set()
                for s in stmts_of(se):
                    w |= write_targets(s)
                if w and (inside_arm or (w & reads_of(t[1]))):
                    se_out.update(w | stmt_targets)
                    for se2 in ses:
                        for s in stmts_of(se2):
                            se_out.update(write_targets(s))
            for arm in t[2:4]:
                for n in subterms(arm):
                    if isinstance(n, tuple) and n and n[0] in ('post', 'pre', 'call') and not _inside_stmtexpr(arm, n):
                        w = write_targets(n) if n[0] != 'call' else write_targets((n[0], n[1]) + tuple(n[2:]))
                        if n[0] == 'call' and n[1] not in PURE_CALLS:
                            w = w | {'call:' + n[1]}
                        if w:
                            hy_out.update(w | stmt_targets)
            walk(t[1], inside_arm, stmt_targets)
            walk(t[2], True, stmt_targets)
            walk(t[3], True, stmt_targets)
            return
        for x in t[1:]:
            walk(x, inside_arm, stmt_targets)

    walk(ast, False, set())
    return se_out, hy_out


PURE_CALLS = {'clz32', 'clz64', 'clo32', 'clo64', 'revbit16', 'revbit32', 'revbit64', 'fbrev', 'conv_round', 'get_usr_field',
              'extract32', 'extract64', 'sextract64', 'deposit32', 'deposit64', 'bswap16', 'bswap32', 'bswap64', 'REGFIELD',
              'get_corresponding_CS', 'get_npc', 'sizeof', 'FLOAT', 'DOUBLE', 'fUNFLOAT', 'fUNDOUBLE'}


def _inside_stmtexpr(root, node):
    """is `node` located inside a statement-expression below root?"""
    def rec(t, inside):
        if t is node:
            return inside
        if not isinstance(t, tuple):
            return None
        for x in t[1:]:
            r = rec(x, inside or (isinstance(t, tuple) and t and t[0] == 'stmtexpr'))
            if r is not None:
                return r
        return None
    return bool(rec(root, False))


def write_targets_shallow(stmt):
    """what a statement writes at its own level (assignment targets incl. nested assignments)"""
    return write_targets(stmt)


def stmtexpr_guard_targets(ast):
    return guard_targets(ast)[0]


def taint_closure(ast, seed):
    """flow-insensitive closure: every observable that may depend on an observable in `seed`"""
    T = set(seed)
    changed = True

    def visit(t):
        nonlocal changed
        if not isinstance(t, tuple) or not t:
            return
        k = t[0]
        if k in ('if', 'for'):
            conds = [t[1]] if k == 'if' else [x for x in t[1:4] if x is not None]
            if any(reads_of(c) & T for c in conds if isinstance(c, tuple)):
                w = write_targets(t)
                if not w <= T:
                    T.update(w)
                    changed = True
        if k in ('expr', 'decl', 'store', 'jump', 'return', 'assign'):
            if reads_of(t) & T:
                w = write_targets(t)
                if not w <= T:
                    T.update(w)
                    changed = True
        for x in t[1:]:
            visit(x)

    n = 0
    while changed and n < 20:
        changed = False
        visit(ast)
        n += 1
    return T


def is_constant_expr(t):
    if not isinstance(t, tuple) or not t:
        return False
    if t[0] == 'num':
        return True
    if t[0] in ('bin', 'un', 'cast', 'cond'):
        return all(is_constant_expr(x) for x in t[1:] if isinstance(x, tuple))
    if t[0] == 'call' and t[1] == 'sizeof':
        return True
    return False


def dead_arm_names(ast):
    """C variable names (as the compiler spells them) of the operands that occur in the arms of a ?: whose
    condition is a constant expression - the signature of the listed finding dead_arm_operand."""
    out = set()
    for n in subterms(ast):
        arms = ()
        if isinstance(n, tuple) and n and n[0] == 'cond' and is_constant_expr(n[1]):
            arms = n[2:4]
        elif isinstance(n, tuple) and n and n[0] == 'call' and n[1] == 'sizeof':
            arms = n[2:]  # the operand of sizeof is not evaluated either
        if arms:
            for arm in arms:
                for x in subterms(arm):
                    if not isinstance(x, tuple) or not x:
                        continue
                    if x[0] == 'reg':
                        out.add(x[1] + x[2] + ('_new' if x[3] else ''))
                    elif x[0] == 'imm':
                        out.add(x[1])
                    elif x[0] == 'id':
                        out.add(x[1])
                    elif x[0] == 'xreg':
                        out.add(x[1].replace(':', '_') + ('_new' if x[2] else ''))
                    elif x[0] == 'alias':
                        out.add(x[1].lower() + ('_new' if x[2] else ''))
    return out


_KIND = {'+': 'ADD', '-': 'SUB', '*': 'MUL', '/': 'DIV', '%': 'MOD', '|': 'OR', '&': 'AND', '^': 'XOR', '>>': 'RSHIFT', '<<': 'LSHIFT',
         '<': 'LT', '>': 'GT', '<=': 'LE', '>=': 'GE', '==': 'EQ', '!=': 'NE', '&&': 'AND', '||': 'OR'}
_UKIND = {'~': 'NOT', '-': 'NEG', '!': 'INV', '+': 'POS'}


def dead_nested_kinds(ast):
    """Counter of the operation kinds (the compiler's op_<KIND>_n names) that occur STRICTLY BELOW the root of a dead arm
    (the root of a folded arm is removed by the compiler, what hangs below it is what the listed finding dead_arm_operand
    leaves behind); for sizeof the operand's root counts too. Key 'other' counts casts, conditionals, calls and loads."""
    import collections

    out = collections.Counter()

    def kind(x):
        if x[0] == 'bin':
            return _KIND.get(x[1], 'other')
        if x[0] == 'un':
            return _UKIND.get(x[1], 'other')
        if x[0] in ('cast', 'cond', 'call', 'load', 'stmtexpr', 'assign', 'post', 'pre', 'comma'):
            return 'other'
        return None

    for n in subterms(ast):
        roots = ()
        below_only = True
        if isinstance(n, tuple) and n and n[0] == 'cond' and is_constant_expr(n[1]):
            roots = n[2:4]
        elif isinstance(n, tuple) and n and n[0] == 'call' and n[1] == 'sizeof':
            roots = n[2:]
            below_only = False
        for r in roots:
            first = True
            for x in subterms(r):
                if not isinstance(x, tuple) or not x:
                    continue
                if first:
                    first = False
                    if x is r and below_only:
                        continue
                k = kind(x)
                if k:
                    out[k] += 1
    return out


IMPLICIT_LOCALS = ("EA", "i", "j", "k")


def local_names(ast, params=()):
    """source-level local variables of a behaviour / routine body: declared names and the dialect's implicit locals that occur"""
    out = set()
    for n in subterms(ast):
        if isinstance(n, tuple) and n:
            if n[0] == 'decl':
                out.add(n[2])
            elif n[0] == 'id' and n[1] in IMPLICIT_LOCALS:
                out.add(n[1])
    return out - set(params)


def used_names(ast):
    return {n[1] for n in subterms(ast) if isinstance(n, tuple) and n and n[0] == 'id'} | local_names(ast)


def has_early_return(ast):
    """a `return` that is not in tail position: some statement of its block or of an enclosing block follows it (the loop body is never
    a tail position)"""
    found = []

    def seq(stmts, tail):
        for k, st in enumerate(stmts):
            one(st, tail and k == len(stmts) - 1)

    def one(st, tail):
        if not isinstance(st, tuple) or not st:
            return
        if st[0] == 'return':
            if not tail:
                found.append(st)
        elif st[0] in ('block', 'fbody'):
            seq(list(st[1:]), tail)
        elif st[0] == 'if':
            for arm in st[2:]:
                one(arm, tail)
        elif st[0] == 'for':
            one(st[4], False)

    one(ast, True)
    return bool(found)


def loop_condition_hybrids(ast, routine_names=()):
    """for-loops whose CONDITION contains a value-producing operation with an effect (postfix/prefix ++/--, a statement-expression,
    a call of a routine): -> list of the offending condition sub-terms"""
    out = []
    for n in subterms(ast):
        if isinstance(n, tuple) and n and n[0] == 'for' and n[2] is not None:
            for x in subterms(n[2]):
                if isinstance(x, tuple) and x and (x[0] in ('post', 'pre', 'stmtexpr') or (x[0] == 'call' and x[1] in routine_names)):
                    out.append(x)
    return out


def valueless_hybrid_statements(ast, routine_names=()):
    """expression statements whose value is dropped (root has no effect) but which contain an operation with an effect"""
    out = []
    for n in subterms(ast):
        if isinstance(n, tuple) and n and n[0] == 'expr' and isinstance(n[1], tuple) and n[1][0] in ('bin', 'un', 'cast', 'cond'):
            for x in subterms(n[1]):
                if isinstance(x, tuple) and x and (x[0] in ('post', 'pre', 'stmtexpr') or (x[0] == 'call' and x[1] in routine_names)):
                    out.append(n[1])
                    break
    return out


def redeclared_locals(ast):
    """names declared more than once anywhere in the behaviour -> {name: set of declared types}"""
    out = {}
    for n in subterms(ast):
        if isinstance(n, tuple) and n and n[0] == 'decl':
            out.setdefault(n[2], []).append(n[1])
    return {k: v for k, v in out.items() if len(v) > 1}


def valueless_statements(ast):
    """expression statements whose value is dropped and whose root has no effect (`RsV + 1;`): -> (operand names, Counter of kinds)"""
    import collections

    names, kinds = set(), collections.Counter()
    for n in subterms(ast):
        if isinstance(n, tuple) and n and n[0] == 'expr' and isinstance(n[1], tuple) and n[1][0] in ('bin', 'un', 'cast', 'reg', 'id', 'imm', 'cond', 'num', 'alias', 'xreg'):
            fake = ('call', 'sizeof', n[1])
            names |= dead_arm_names(fake)
            kinds += dead_nested_kinds(fake)
    return names, kinds


def attributes_of(text, noped=False):
    """C13 oracle: attribute set implied by the part's own text (independent parser)."""
    if noped:
        return ["HEX_IL_INSN_ATTR_NONE"]
    ast = parse(text)
    cond = new = rd = wr = br = wpred = False
    preds = []
    for n in subterms(ast):
        if not isinstance(n, tuple) or not n:
            continue
        k = n[0]
        if k == 'if' or k == 'switch':
            cond = True
        elif k == 'reg' and n[3]:
            new = True
        elif k in ('xreg', 'alias') and n[2]:
            new = True
        elif k == 'load':
            rd = True
        elif k == 'store':
            wr = True
        elif k == 'jump':
            br = True
        elif k == 'assign':
            l = n[2]
            if isinstance(l, tuple) and l and l[0] == 'reg' and l[1] == 'P':
                wpred = True
            elif isinstance(l, tuple) and l and l[0] == 'xreg' and l[1][0] == 'P':
                wpred = True
                m = re.match(r'P([0-3])$', l[1])
                if m and int(m.group(1)) not in preds:
                    preds.append(int(m.group(1)))
    flags = []
    if cond:
        flags.append("HEX_IL_INSN_ATTR_COND")
    if new:
        flags.append("HEX_IL_INSN_ATTR_NEW")
    if wr:
        flags.append("HEX_IL_INSN_ATTR_MEM_WRITE")
    if rd:
        flags.append("HEX_IL_INSN_ATTR_MEM_READ")
    if br:
        flags.append("HEX_IL_INSN_ATTR_BRANCH")
    if wpred:
        flags.append("HEX_IL_INSN_ATTR_WPRED")
        for p in preds:
            flags.append(f"HEX_IL_INSN_ATTR_WRITE_P{p}")
    return flags or ["HEX_IL_INSN_ATTR_NONE"]


def _operand_name(x):
    if x[0] == 'reg':
        return x[1] + x[2] + ('_new' if x[3] else '')
    if x[0] == 'imm':
        return x[1]
    if x[0] == 'id':
        return x[1]
    if x[0] == 'xreg':
        return x[1].replace(':', '_') + ('_new' if x[2] else '')
    if x[0] == 'alias':
        return x[1].lower() + ('_new' if x[2] else '')
    return None


def live_operand_names(ast):
    """operand names that occur outside the unevaluated contexts (arms of constant-condition ?:, sizeof operands)"""
    out = set()

    def walk(t):
        if not isinstance(t, tuple) or not t:
            return
        if t[0] == 'cond' and is_constant_expr(t[1]):
            return  # which arm is live is not decided here: conservative (neither counts as live)
        if t[0] == 'call' and t[1] == 'sizeof':
            return
        if t[0] in ('reg', 'imm', 'id', 'xreg', 'alias'):
            n = _operand_name(t)
            if n:
                out.add(n)
            return
        for x in t[1:]:
            walk(x)

    walk(ast)
    return out
