"""C02 - integer operators follow C11 promotion, common-type and operator semantics.

One-operator programs `{ T1 a=(T1)X; T2 b=(T2)Y; RddV=(int64_t)(a OP b); }` for every
operator x T1 x T2 (depth 1, exhaustive over cells), depth-2 combinations and random deeper
trees; every program is compiled by the real compiler in a pristine forked child, the emitted IL
is executed by the IL evaluator and compared with the same text compiled as C (gcc -O0 + UBSan
handlers; undefined executions skipped)."""
import random

from .. import common, diffcheck, gen, pipeline
from .. import coracle as CO

SMALL = [0, 1, 2, 3, 4, 7, 8, 15, 16, 17, 24, 30, 31, 32, 33, 47, 48, 62, 63, 64, 65]


def shift_states(rng, ops):
    """second operand small (defined shifts), first operand boundary/random"""
    out = []
    for n in SMALL:
        st = CO.gen_state(rng, ops)
        for o, k in zip(ops, range(len(ops))):
            if o["kind"] == "reg" and o["slot"] in ("t", "v"):
                st["old"][o["key"]] = n
                st["vals"][k] = n
        out.append(st)
    return out


def exhaustive8_states(rng, ops):
    base = CO.gen_state(rng, ops)
    out = []
    ia = [k for k, o in enumerate(ops) if o["kind"] == "reg" and o["slot"] == "s"]
    ib = [k for k, o in enumerate(ops) if o["kind"] == "reg" and o["slot"] == "t"]
    if not ia or not ib:
        return out
    hi_a, hi_b = rng.getrandbits(24) << 8, rng.getrandbits(24) << 8
    for a in range(256):
        for b in range(256):
            st = dict(base)
            st["old"] = dict(base["old"])
            st["vals"] = list(base["vals"])
            st["old"]["slot:s"] = hi_a | a
            st["old"]["slot:t"] = hi_b | b
            st["vals"][ia[0]] = hi_a | a
            st["vals"][ib[0]] = hi_b | b
            out.append(st)
    return out


def cell_of(name):
    return name


def main(tier):
    run = common.Run("C02", "exploration", tier)
    S = pipeline.Session()
    fam = diffcheck.Family(run, S, "C02")
    rng = random.Random(run.seed)
    items = []
    for name, text in gen.ops_matrix():
        it = dict(name=name, text=text, vkey=name.split("|")[0])
        op = name.split("|")[0]
        if op in ("<<", ">>"):
            it["states_fn"] = shift_states
        if tier == "thorough" and name.count("int8_t") == 2 and op not in ("u~", "u-", "u!"):
            it["states_fn8"] = True
        items.append(it)
    n2 = 120 if tier == "quick" else 3000
    for name, text in gen.ops_depth2(rng, n2):
        items.append(dict(name="d2:" + name, text=text, vkey="depth2:" + name.split("|")[0]))
    for rep in range(1 if tier == "quick" else 6):
        for name, text in gen.ops_pairs(random.Random(f"{run.seed}:pairs:{rep}")):
            it = dict(name=f"{name};{rep}", text=text, vkey="pairs:" + ";".join(name.split(";")[:3]))
            if "<<" in name or ">>" in name:
                it["states_fn"] = shift_states
            items.append(it)
    nrand = 150 if tier == "quick" else 2000
    g = gen.G(random.Random(run.seed + 7), avoid=("calls", "mem", "postfix", "div", "loops", "stmtexpr", "const_cond"))
    for i in range(nrand):
        e = g.expr(rng.choice([2, 3, 4]))
        g.locals = {}
        items.append(dict(name=f"tree{i}", text=f"{{ RddV = (int64_t){e}; }}", vkey=f"tree"))
    fam.replay_witnesses()
    progs, kept = fam.compile(items)
    nst = 48 if tier == "quick" else 200
    res = fam.differential(progs, nst, clang=(tier == "thorough"), key_of=lambda p: p.name)
    ex8 = 0
    if tier == "thorough":
        # exhaustive 8-bit values for the cells whose operands are both 8 bit
        p8 = [p for p in progs if p.extra["item"].get("states_fn8")]
        for k in range(0, len(p8), 8):
            batch = p8[k:k + 8]
            for p in batch:
                p.extra["states_fn"] = exhaustive8_states
                p.extra["nstates"] = 0
            fam.differential(batch, 0, key_of=lambda p: p.name + "#exh8")
            ex8 += len(batch)
    cells = {p.name for p in progs if "|" in p.name and not p.name.startswith("d2:")}
    cov = fam.coverage()
    cov.update({
        "evaluations": fam.stats["evaluations"],
        "distinct_nontrivial": len(fam.nontrivial),
        "rule": "one case = (program, initial state) with a defined C execution; a program counts as distinct non-trivial when it is a distinct "
                "(operator, T1, T2) cell / depth-2 shape / random tree and at least one defined state was compared and agreed",
        "samples": fam.samples or [{"note": "no agreeing sample with a changed observable"}],
        "depth1_cells_total": len(gen.ops_matrix()), "depth1_cells_accepted": len(cells),
        "exhaustive_8bit_cells": ex8,
        "states_per_program": nst,
    })
    run.assumptions = ["C reference = gcc -O0 -fwrapv with UBSan handlers; executions with an out-of-range shift are skipped, not compared",
                       "operand initialisers only narrow or keep width (no dependence on widening conversions)"]
    run.finish(cov, hard_inconclusive=None if fam.stats["evaluations"] > 0 else "no execution was compared")


def replay(path):
    return diffcheck.replay_prog(path)
