"""C19 - loading and splitting resolved shortcode loses nothing.

Runtime contracts on the real split_resolved_shortcode / split_compounds / load_insn_behavior against an
independent bracket-aware splitter: for every bundled line and for generated lines (names over \\w+,
bodies over the dialect's tokens with nested parentheses/braces/commas/strings, text before, between
and after the part markers, malformed variants) the function must return exactly (NAME, BODY) resp.
brace-balanced parts whose token sequence is the body's minus the markers - or raise."""
import os
import random
import re
import tempfile

from .. import common, harness

MARK = "__COMPOUND_PART1__"
TOKS = ["RdV", "RsV", "RttV", "PuN", "siV", "uiV", "EA", "x", "tmp", "0x1f", "7", "1LL", "+", "-", "*", "<<", ">>", "&", "|", "==", "<", "=", "+=", ";", ",", "?", ":",
        "mem_load_s16", "mem_store_u32", "clz32", "fGEN_TCG", "sizeof", "if", "else", "for", "int32_t", "JUMP", "HEX_REG_ALIAS_LR"]


def ref_split_line(line):
    """independent reader of `insn(NAME, BODY)`: -> (name, body) or None if the line is not of that shape"""
    m = re.match(r"insn\((\w+), ", line, re.ASCII)
    if not m:
        return None
    i = m.end()
    depth = 1
    n = len(line)
    j = i
    while j < n:
        ch = line[j]
        if ch == '"':
            j += 1
            while j < n and line[j] != '"':
                j += 2 if line[j] == "\\" else 1
        elif ch == "(":
            depth += 1
        elif ch == ")":
            depth -= 1
            if depth == 0:
                break
        j += 1
    if depth != 0 or j >= n:
        return None
    rest = line[j + 1:]
    if rest.strip("\n") != "":
        return None  # something follows the closing parenthesis
    body = line[i:j]
    if not body:
        return None
    return m.group(1), body


def tokens(s):
    # string and character literals are one token each: white space inside them is content
    return re.findall(r'"(?:\\.|[^"\\])*"|\'(?:\\.|[^\'\\])*\'|\w+|[^\w\s]', s)


def balanced(s):
    d = 0
    for ch in s:
        if ch == "{":
            d += 1
        elif ch == "}":
            d -= 1
            if d < 0:
                return False
    return d == 0


def strip_outer(toks):
    if len(toks) >= 2 and toks[0] == "{" and toks[-1] == "}":
        return toks[1:-1]
    return None


def gen_body(rng, depth=0):
    parts = []
    for _ in range(rng.randint(1, 6)):
        c = rng.random()
        if c < 0.55 or depth > 2:
            parts.append(rng.choice(TOKS))
        elif c < 0.75:
            parts.append("(" + gen_body(rng, depth + 1) + ")")
        elif c < 0.9:
            parts.append("{ " + gen_body(rng, depth + 1) + "; }")
        elif c < 0.95:
            parts.append('fatal("x) y, (z")')
        else:
            parts.append(rng.choice(['fatal("a\tb")', "'\t'", 'fatal("  two  blanks\t")', "x\t=\t7", "RdV  =  RsV"]))  # white space that is content / unusual separators
    return " ".join(parts)


def main(tier):
    run = common.Run("C19", "exploration", tier)
    harness.setup()
    from rzilcompiler.Preprocessor.Hexagon.PreprocessorHexagon import PreprocessorHexagon as PP

    rng = random.Random(run.seed)
    path = os.path.join(common.REPO, "Resources/Hexagon/Preprocessor/shortcode_resolved.h")
    bundled = [l for l in open(path) if not l.startswith("#")]
    cases = 0
    nontrivial = set()
    samples = []
    kf = run.findings

    def check_line(line, origin):
        nonlocal cases
        cases += 1
        exp = ref_split_line(line)
        try:
            got = PP.split_resolved_shortcode(line)
        except Exception:
            got = None
        if exp is None:
            if got is not None:
                mech = "two_definitions_on_one_line"
                if mech in kf and line.startswith("insn(") and re.search(r"\) +insn\(\w+, ", line) is not None:
                    run.known(mech, {"line": line[:120]})
                else:
                    run.violation(f"malformed line is accepted instead of rejected ({origin}): {line[:120]!r} -> {str(got)[:100]}", {"kind": "malformed_accepted", "line": line}, key="malformed:" + origin)
            return None
        if got is None:
            return exp  # rejection is allowed
        if tuple(got) != exp:
            run.violation(f"split_resolved_shortcode returns {str(got)[:160]} for a line whose name/body are {str(exp)[:160]} ({origin})", {"kind": "split_line", "line": line, "expected": exp, "got": got}, key="split_line:" + origin)
        else:
            if re.search(r"[(),{]", exp[1]):
                nontrivial.add(exp)
        return exp

    def check_compound(body, origin):
        nonlocal cases
        cases += 1
        if body.count(MARK) != 2:
            return
        try:
            p1, p2 = PP.split_compounds(body)
        except Exception:
            return  # raising is allowed
        want = strip_outer(tokens(body.replace(MARK, " ")))
        g1, g2 = strip_outer(tokens(p1)), strip_outer(tokens(p2))
        # body `{ M{ A }M B }` -> parts `{ A }` and `{ B }`: the first part keeps its own braces in the body
        ok = want is not None and g1 is not None and g2 is not None and balanced(p1) and balanced(p2) and tokens(p1) + g2 == want
        if not ok:
            mech = "compound_prefix_dropped"
            first = body.index(MARK)
            prefix = body[:first].strip()
            if mech in kf and prefix not in ("{", "") and g1 is not None and g2 is not None and want is not None and strip_outer(tokens(prefix + "}")) is not None \
                    and strip_outer(tokens(prefix + "}")) + tokens(p1) + g2 == want:
                run.known(mech, {"body": body[:160]})
                return
            run.violation(f"split_compounds loses or reorders text ({origin}): body {body[:140]!r} -> {p1[:60]!r} + {p2[:60]!r}", {"kind": "compound", "body": body, "parts": [p1, p2]}, key="compound:" + origin)
        else:
            nontrivial.add(("compound", body))
            if len(samples) < 2:
                samples.append({"body": body[:160], "part1": p1[:80], "part2": p2[:80]})

    # ---- bundled file: every line, and the loader as a whole
    names = []
    ncomp = 0
    for line in bundled:
        exp = check_line(line, "bundled")
        if exp:
            names.append(exp[0])
            if MARK in exp[1]:
                ncomp += 1
                check_compound(exp[1], "bundled")
    pp = PP(path)
    type(pp).behaviors = dict()
    pp.load_insn_behavior()
    loaded = dict(pp.behaviors)
    type(pp).behaviors = dict()
    cases += 1
    if sorted(loaded) != sorted(set(names)):
        run.violation(f"load_insn_behavior yields {len(loaded)} entries for {len(set(names))} distinct names of the bundled file", {"kind": "loader"}, key="loader_names")
    for line in bundled:
        exp = ref_split_line(line)
        if exp and exp[0] in loaded:
            parts = loaded[exp[0]]
            if (len(parts) == 2) != (MARK in exp[1]) or (len(parts) == 1 and parts[0] != exp[1]):
                run.violation(f"load_insn_behavior: {exp[0]} has {len(parts)} parts / wrong body", {"kind": "loader", "name": exp[0]}, key="loader_parts")
    # ---- generated lines
    ngen = 20000 if tier == "quick" else 300000
    for i in range(ngen):
        name = rng.choice(["A2_add", "x", "J4_cmpeqi_tp0_jump_nt", "_u1", "V6_vaddb"]) + str(rng.randint(0, 9999))
        body = "{ " + gen_body(rng) + "; }"
        c = rng.random()
        if c < 0.15:
            a, b = gen_body(rng), gen_body(rng)
            pre = rng.choice(["", "", "", gen_body(rng) + "; "])
            mid = rng.choice(["", "", " "])
            body = "{ " + pre + MARK + "{ " + a + "; }" + MARK + mid + b + "; }"
            if rng.random() < 0.12:
                body += rng.choice([" ", ""]) + gen_body(rng) + ";"  # text after the outer bracket of a compound body: may be rejected, never dropped
        line = f"insn({name}, {body})"
        k = rng.random()
        if k < 0.70:
            line += "\n"
        elif k < 0.75:
            pass  # last line of a file without newline
        elif k < 0.80:
            line += rng.choice([" ", "  ", "\t"]) + "\n"  # trailing white space
        elif k < 0.84:
            line = rng.choice(["x", "// ", "garbage "]) + line + "\n"  # leading garbage
        elif k < 0.88:
            line = line + " " + f"insn(B{i}, {{ {gen_body(rng)}; }})\n"  # two definitions on one line
        elif k < 0.91:
            line = line[: -1] + "\n"  # closing parenthesis missing
        elif k < 0.94:
            line = line.replace(", ", ",", 1) + "\n"  # separator without blank
        elif k < 0.97:
            line = f"insn({name} {body})\n"  # no comma
        else:
            line = "\n"
        exp = check_line(line, "generated")
        if exp and MARK in exp[1]:
            check_compound(exp[1], "generated")
    # the loader on scratch files built from generated well-formed lines (several layouts: spacing around the compound markers,
    # #line directives between definitions, last line without newline)
    import rzilcompiler.Preprocessor.Hexagon.PreprocessorHexagon as M

    scratch_files = 0
    scratch_entries = 0
    reloads = 0
    malformed_files = 0
    for fno in range(3 if tier == "quick" else 40):
        tmp = tempfile.mkdtemp(prefix="verif-c19-")
        try:
            lines = []
            expect = {}
            r3 = random.Random(f"{run.seed}:scratch:{fno}")
            for i in range(200):
                name = f"G{fno}_{i}"
                if i % 5 == 0:
                    sp1, sp2, sp3 = (r3.choice(["", " ", "  ", "\t"]) for _ in range(3))
                    body = "{" + sp1 + MARK + "{ " + gen_body(r3) + "; }" + MARK + sp2 + gen_body(r3) + ";" + sp3 + "}"
                else:
                    body = "{ " + gen_body(r3) + "; }"
                if r3.random() < 0.1:
                    lines.append(r3.choice([f"# {i} \"macros.h\"\n", "# 1 \"<built-in>\"\n", "#line 3\n"]))  # (an empty line may be rejected: not used)
                lines.append(f"insn({name}, {body})\n")
                expect[name] = body
            if fno % 2:
                lines[-1] = lines[-1].rstrip("\n")
            fpath = os.path.join(tmp, "resolved.h")
            with open(fpath, "w") as f:
                f.write("# 1 \"x\"\n")
                f.writelines(lines)
            orig = M.Conf.get_path
            M.Conf.get_path = staticmethod(lambda file, arch_name="": fpath if "SHORTCODE_RESOLVED_H" in repr(file) or str(file).endswith("shortcode_resolved.h") else orig(file, arch_name))
            pp2 = None
            try:
                pp2 = PP(fpath)
                type(pp2).behaviors = dict()
                pp2.load_insn_behavior()
                got = dict(pp2.behaviors)
            except Exception as e:  # noqa
                got = None
                err = repr(e)[:200]
            finally:
                M.Conf.get_path = orig
                if pp2 is not None:
                    type(pp2).behaviors = dict()
            # a second load in the same process (the behaviours dict is class-level): the file was re-resolved, names keep, bodies change
            expect2 = {}
            lines2 = []
            for i, n in enumerate(expect):
                if i % 3 == 0:
                    body2 = "{ " + MARK + "{ " + gen_body(r3) + "; }" + MARK + gen_body(r3) + "; }"
                else:
                    body2 = "{ " + gen_body(r3) + "; }"
                expect2[n] = body2
                lines2.append(f"insn({n}, {body2})\n")
            with open(fpath, "w") as f:
                f.writelines(lines2)
            M.Conf.get_path = staticmethod(lambda file, arch_name="": fpath if "SHORTCODE_RESOLVED_H" in repr(file) or str(file).endswith("shortcode_resolved.h") else orig(file, arch_name))
            got2 = None
            try:
                if got is not None:
                    type(pp2).behaviors = dict(got)  # what the first load left behind
                    pp3 = PP(fpath)
                    pp3.load_insn_behavior()
                    got2 = dict(pp3.behaviors)
            except Exception as e:  # noqa
                err2 = repr(e)[:200]
            finally:
                M.Conf.get_path = orig
                type(pp2).behaviors = dict()
            if got is not None:
                cases += 1
                reloads += 1
                if got2 is None:
                    run.violation(f"second load_insn_behavior in one process raises: {err2}", {"kind": "loader_reload"}, key="loader_reload_raise")
                else:
                    for n, b in expect2.items():
                        g2 = got2.get(n)
                        if MARK in b:
                            want = strip_outer(tokens(b.replace(MARK, " ")))
                            ok2 = g2 is not None and len(g2) == 2 and strip_outer(tokens(g2[1])) is not None and tokens(g2[0]) + strip_outer(tokens(g2[1])) == want
                        else:
                            ok2 = g2 == [b]
                        if not ok2:
                            run.violation(f"second load in one process: entry {n} still has the body of the first load / is wrong", {"kind": "loader_reload", "name": n, "body": b, "got": g2, "first": got.get(n)}, key="loader_reload")
                            break
            # malformed lines in a file: the loader has to reject them (raise), not skip or repair them
            for mi, bad in enumerate([f"insn(BAD{fno},\t{{ RdV = RsV; }})\n", f"insn(BAD{fno},{{ RdV = RsV; }})\n", f"insn(BAD{fno} {{ RdV = RsV; }})\n",
                                      f"insn(BAD{fno}, {{ RdV = RsV; }}\n", f"\tinsn(BAD{fno}, {{ RdV = RsV; }})\n", f"insn(BAD{fno}, {{ RdV = RsV; }})\t;\n"]):
                if ref_split_line(bad) is not None:
                    continue
                good = [l for l in lines if l.startswith("insn(")][:4]
                with open(fpath, "w") as f:
                    f.writelines(good[:2] + [bad] + good[2:])
                M.Conf.get_path = staticmethod(lambda file, arch_name="": fpath if "SHORTCODE_RESOLVED_H" in repr(file) or str(file).endswith("shortcode_resolved.h") else orig(file, arch_name))
                try:
                    type(pp2 or PP).behaviors = dict()
                    pp4 = PP(fpath)
                    pp4.load_insn_behavior()
                    gotm = dict(pp4.behaviors)
                except Exception:  # noqa
                    gotm = None
                finally:
                    M.Conf.get_path = orig
                    PP.behaviors = dict()
                cases += 1
                malformed_files += 1
                if gotm is not None:
                    run.violation(f"load_insn_behavior accepts a file with the malformed line {bad!r} (entry: {str(gotm.get('BAD%d' % fno))[:80]})", {"kind": "loader_malformed", "line": bad, "entries": sorted(gotm)}, key=f"loader_malformed:{mi}")
            cases += 1
            scratch_files += 1
            if got is None:
                run.violation(f"load_insn_behavior raises on a well-formed scratch file: {err}", {"kind": "loader_scratch", "file": "".join(lines)[:4000]}, key="loader_scratch_raise")
                continue
            if sorted(got) != sorted(expect):
                run.violation(f"load_insn_behavior on a scratch file: {len(got)} entries for {len(expect)} lines", {"kind": "loader_scratch", "missing": sorted(set(expect) - set(got))[:5]}, key="loader_scratch")
            for n, b in expect.items():
                scratch_entries += 1
                if n not in got:
                    continue
                if MARK in b:
                    want = strip_outer(tokens(b.replace(MARK, " ")))
                    ok = len(got[n]) == 2 and balanced(got[n][0]) and balanced(got[n][1]) and strip_outer(tokens(got[n][1])) is not None \
                        and tokens(got[n][0]) + strip_outer(tokens(got[n][1])) == want
                else:
                    ok = len(got[n]) == 1 and got[n][0] == b
                if not ok:
                    run.violation(f"load_insn_behavior on a scratch file: entry {n} wrong", {"kind": "loader_scratch", "name": n, "body": b, "got": got[n]}, key="loader_scratch_entry")
        finally:
            for f in os.listdir(tmp):
                os.unlink(os.path.join(tmp, f))
            os.rmdir(tmp)
    run.assumptions = ["a well-formed line is `insn(` at the start, a \\w+ name, `, `, a body up to the matching parenthesis (string-aware), then only a newline",
                       "raising on any line is allowed; returning something else than (NAME, BODY) or accepting a malformed line is not"]
    run.finish({
        "evaluations": cases, "distinct_nontrivial": len(nontrivial),
        "rule": "one case = one line (or compound body) handed to the real function and to the independent splitter; distinct non-trivial = distinct well-formed "
                "bodies containing ( ) , or { that were recovered exactly, and compound bodies split without loss",
        "samples": samples or [{"note": "none"}], "bundled_lines": len(bundled), "bundled_compounds": ncomp, "generated_lines": ngen,
        "scratch_files_loaded": scratch_files, "reloads_with_changed_bodies": reloads, "malformed_scratch_files": malformed_files, "scratch_entries_compared": scratch_entries,
    }, hard_inconclusive=None if cases > 1000 else "too few lines")


def replay(path):
    import json

    harness.setup()
    from rzilcompiler.Preprocessor.Hexagon.PreprocessorHexagon import PreprocessorHexagon as PP

    rp = json.load(open(path))
    if "line" in rp:
        try:
            got = PP.split_resolved_shortcode(rp["line"])
        except Exception as e:
            got = f"raises {type(e).__name__}"
        print("line:", repr(rp["line"][:200]), "\nnow:", got, "\nreference:", ref_split_line(rp["line"]))
        exp = ref_split_line(rp["line"])
        return 1 if (not isinstance(got, str)) and (exp is None or tuple(got) != exp) else 0
    if "body" in rp:
        print(PP.split_compounds(rp["body"]))
    return 1
