"""C04 - common-type and promotion rules are exactly the C11 table.

Runtime contracts on the real c11_cast / promoted_type (verif/contracts.py) evaluated on
every ordered pair of (signedness, width): quick = all pairs over the 24 producible types plus
random pairs in 1..2048; thorough = all 4096 x 4096 pairs (exhaustive)."""
import random

from .. import common, harness
from ..contracts import c11_ref, promo_ref, snap


def _check_pair(VT, c11, a_sw, b_sw, viol):
    ValueType = VT.ValueType
    a = ValueType(a_sw[0], a_sw[1])
    b = ValueType(b_sw[0], b_sw[1])
    sa, sb = snap(a), snap(b)
    try:
        ra, rb = c11(a, b)
    except Exception as e:  # totality
        viol.append(("raises", a_sw, b_sw, repr(e)[:80]))
        return
    exp = c11_ref(a_sw[0], a_sw[1], b_sw[0], b_sw[1])
    got = ((ra._signed, ra._bit_width), (rb._signed, rb._bit_width))
    if got != (exp, exp):
        viol.append(("table", a_sw, b_sw, got, exp))
    if snap(a) != sa or snap(b) != sb:
        viol.append(("args_modified", a_sw, b_sw, (snap(a)[:2], snap(b)[:2])))
    # determinism: a second call on fresh objects
    a2, b2 = ValueType(*a_sw), ValueType(*b_sw)
    r2 = c11(a2, b2)
    if ((r2[0]._signed, r2[0]._bit_width), (r2[1]._signed, r2[1]._bit_width)) != got:
        viol.append(("nondeterministic", a_sw, b_sw))
    # symmetry
    a3, b3 = ValueType(*a_sw), ValueType(*b_sw)
    rs = c11(b3, a3)
    if ((rs[1]._signed, rs[1]._bit_width), (rs[0]._signed, rs[0]._bit_width)) != got:
        viol.append(("asymmetric", a_sw, b_sw, got, ((rs[0]._signed, rs[0]._bit_width), (rs[1]._signed, rs[1]._bit_width))))
    # a later mutation of the result must not reach the arguments (the callers do mutate results)
    for r in (ra, rb):
        if r is not a and r is not b:
            r._bit_width += 1
            r._signed = not r._signed
    if (a._signed, a._bit_width) != a_sw or (b._signed, b._bit_width) != b_sw:
        if not (ra is a or rb is b):
            viol.append(("result_aliases_argument_state", a_sw, b_sw))


def _promo(VT, promoted, sw, viol):
    t = VT.ValueType(sw[0], sw[1])
    s0 = snap(t)
    try:
        r = promoted(t)
    except Exception as e:
        viol.append(("promo_raises", sw, repr(e)[:80]))
        return
    if (r._signed, r._bit_width) != promo_ref(*sw):
        viol.append(("promo_table", sw, (r._signed, r._bit_width), promo_ref(*sw)))
    if snap(t) != s0:
        viol.append(("promo_arg_modified", sw))


def main(tier):
    run = common.Run("C04", "exploration", tier)
    harness.setup()
    import rzilcompiler.Transformer.ValueType as VT

    c11, promoted = VT.c11_cast, VT.promoted_type
    rng = random.Random(run.seed)
    types = [(s, w) for w in (1, 2, 4, 8, 16, 32, 64, 128, 256, 512, 1024, 2048) for s in (True, False)]
    pairs = [(a, b) for a in types for b in types]
    if tier == "quick":
        for _ in range(20000):
            pairs.append(((rng.random() < 0.5, rng.randint(1, 2048)), (rng.random() < 0.5, rng.randint(1, 2048))))
        chunks = [pairs[i::common.NPROC] for i in range(common.NPROC)]
        widths = range(1, 2049)
        exhaustive = False
    else:
        allt = [(s, w) for w in range(1, 2049) for s in (True, False)]
        chunks = [[(a, b) for a in allt[i::common.NPROC * 8] for b in allt] for i in range(common.NPROC * 8)]
        widths = range(1, 2049)
        exhaustive = True

    def work(chunk):
        viol = []
        distinct = 0
        for a, b in chunk:
            _check_pair(VT, c11, a, b, viol)
            if a != b:
                distinct += 1
            if len(viol) > 50:
                break
        return len(chunk), distinct, viol[:20]

    out = harness.pmap(work, chunks)
    n = d = 0
    viols = []
    for r in out:
        if not isinstance(r, tuple):
            run.note_inconclusive(str(r)[:200])
            continue
        n += r[0]
        d += r[1]
        viols.extend(r[2])
    # the table does not depend on the group flags a type object carries (boolean results, constants, hybrid values, long-typed ...)
    G = VT.VTGroup
    flagsets = [G.PURE, G.BOOL, G.CONST, G.HYBRID_LVAR, G.ARCH_LONG, G.PURE | G.CONST, G.BOOL | G.HYBRID_LVAR]
    gv = []
    gcases = 0
    gtypes = [(s, w) for w in (1, 8, 16, 32, 64, 128) for s in (True, False)]
    for a_sw in gtypes:
        for b_sw in gtypes:
            exp = c11_ref(a_sw[0], a_sw[1], b_sw[0], b_sw[1])
            for ga in flagsets:
                for gb in (G.PURE, G.BOOL, G.CONST):
                    gcases += 1
                    a, b = VT.ValueType(a_sw[0], a_sw[1], ga), VT.ValueType(b_sw[0], b_sw[1], gb)
                    try:
                        ra, rb = c11(a, b)
                        got = ((ra._signed, ra._bit_width), (rb._signed, rb._bit_width))
                        ok = got == (exp, exp) and (a._signed, a._bit_width, a.group) == (a_sw[0], a_sw[1], ga) and (b._signed, b._bit_width, b.group) == (b_sw[0], b_sw[1], gb)
                    except Exception as e:  # noqa
                        got, ok = repr(e)[:60], False
                    if not ok and len(gv) < 10:
                        gv.append(("table_with_group_flags", (a_sw, str(ga)), (b_sw, str(gb)), got, exp))
            for ga in flagsets:
                gcases += 1
                t = VT.ValueType(a_sw[0], a_sw[1], ga)
                r = promoted(t)
                if (r._signed, r._bit_width) != promo_ref(*a_sw) or (t._signed, t._bit_width, t.group) != (a_sw[0], a_sw[1], ga):
                    if len(gv) < 10:
                        gv.append(("promo_with_group_flags", (a_sw, str(ga)), (r._signed, r._bit_width), promo_ref(*a_sw)))
    viols.extend(gv)
    pv = []
    for w in widths:
        for s in (True, False):
            _promo(VT, promoted, (s, w), pv)
    for v in viols + pv:
        run.violation(f"{v[0]}: {v[1:]}", {"kind": v[0], "detail": v[1:]}, key=v[0])
    samples = [{"a": pairs[i][0], "b": pairs[i][1], "c11": c11_ref(*pairs[i][0], *pairs[i][1])} for i in (1, 30, 77, 300)] if tier == "quick" else \
        [{"a": (True, 31), "b": (False, 32), "c11": c11_ref(True, 31, False, 32)}, {"a": (True, 2048), "b": (False, 2047), "c11": c11_ref(True, 2048, False, 2047)}]
    run.assumptions = ["rank = bit width (as the property states)", "the exhaustive part builds types with ValueType(signed, width) in the PURE group; 12 types squared are repeated with 7 x 3 combinations of group flags"]
    run.finish({
        "evaluations": n + 2 * len(list(widths)),
        "distinct_nontrivial": d if exhaustive else len({p for p in pairs if p[0] != p[1]}),
        "rule": "every ordered pair (signedness,width)x(signedness,width) in the tier's domain is one case; each case runs the contract "
                "(table equality, totality, arguments unchanged, determinism on fresh objects, symmetry, result mutation does not reach arguments); "
                "non-trivial = the two types differ",
        "samples": samples,
        "exhaustive": exhaustive,
        "domain": "24 producible types squared + 20000 random pairs in 1..2048" if tier == "quick" else "all (s,w) with w in 1..2048, squared",
        "promotion_cases": 2 * len(list(widths)), "cases_with_group_flags": gcases,
    }, hard_inconclusive=None if n else "no contract evaluation happened")


def replay(path):
    import json

    harness.setup()
    import rzilcompiler.Transformer.ValueType as VT

    r = json.load(open(path))
    print(r)
    d = r["detail"]
    viol = []
    if r["kind"].startswith("promo"):
        _promo(VT, VT.promoted_type, tuple(d[0]), viol)
    else:
        _check_pair(VT, VT.c11_cast, tuple(d[0]), tuple(d[1]), viol)
    print("reproduced:" if viol else "not reproduced", viol)
    return 1 if viol else 0
