"""C03 - casts and implicit conversions preserve the C value.

(1) contract on every Cast.il_exec of every compile: target wider than source => fill is MSB(src)
    iff the source type is signed;
(2) differential execution of all 8x8 (+bool source) type pairs in the conversion contexts
    initialiser, assignment, explicit cast, register write (32/64/predicate), memory store,
    argument of a generated sub-routine, return of a generated sub-routine, and chains."""
import random

from .. import common, diffcheck, gen, pipeline
from .. import coracle as CO


def all8_states(rng, ops):
    """every value of the low byte of the source register (exhaustive for 8-bit sources)"""
    out = []
    base = CO.gen_state(rng, ops)
    idx = [k for k, o in enumerate(ops) if o["kind"] == "reg" and o["slot"] in ("s", "u")]
    if not idx:
        return out
    k = idx[0]
    hi = rng.getrandbits(ops[k]["w"]) & ~0xFF
    for v in range(256):
        st = dict(base)
        st["old"] = dict(base["old"])
        st["vals"] = list(base["vals"])
        st["old"][ops[k]["key"]] = hi | v
        st["vals"][k] = hi | v
        out.append(st)
    return out


def main(tier):
    run = common.Run("C03", "exploration", tier)
    S = pipeline.Session()
    fam = diffcheck.Family(run, S, "C03")
    rng = random.Random(run.seed)
    items = []
    for name, text in gen.cast_matrix():
        items.append(dict(name=name, text=text, exports=gen.cast_exports(name)))
    items.extend(gen.cast_call_matrix())
    for name, text in gen.chained_assignments(rng, tier == "thorough"):
        items.append(dict(name=name, text=text, exports=gen.cast_exports(name)))
    cc = gen.compound_conversions()
    for name, text in (cc if tier == "thorough" else rng.sample(cc, 140)):
        items.append(dict(name=name, text=text, exports=gen.cast_exports(name)))
    for name, text in gen.cast_chains(rng, 120 if tier == "quick" else 1500):
        items.append(dict(name=name, text=text))
    for it in items:
        it["vkey"] = it["name"]
        parts = it["name"].split("|")
        if len(parts) > 1 and parts[1] in ("int8_t", "uint8_t"):
            it["states_fn"] = all8_states
    fam.replay_witnesses()
    progs, kept = fam.compile(items)
    # (1) the fill-bit contract on every cast the compiler built
    cast_events = 0
    contract_bad = 0
    for it in kept + [i for i in items if "_exc" in i]:
        ev = it.get("_trace", {}).get("casts", ())
        cast_events += len(ev)
        for kind, e in diffcheck.cast_contract(ev):
            if kind == "cast_sext" and run.known("cast_sext", {"source": it["text"], "cast": e}):
                continue
            contract_bad += 1
            run.violation(f"Cast.il_exec contract ({kind}): {e} while compiling `{it['text'][:100]}`",
                          {"kind": "cast_contract", "contract": kind, "event": e, "text": it["text"], "subs": it.get("subs", []), "name": it["name"]},
                          key=f"cast_contract:{kind}:{e[:4]}")
    nst = 48 if tier == "quick" else 256
    fam.differential(progs, nst, clang=(tier == "thorough"), key_of=lambda p: p.name)
    cov = fam.coverage()
    cells = {p.name for p in progs}
    cov.update({
        "evaluations": fam.stats["evaluations"],
        "distinct_nontrivial": len(fam.nontrivial),
        "rule": "one case = (program, state) with a defined C execution; distinct non-trivial = distinct (context, source type, target type) cell "
                "or conversion chain that was compared on at least one defined state and agreed (cells attributed to the listed cast finding are not counted)",
        "samples": fam.samples or [{"note": "none"}],
        "cells_accepted": len(cells), "cast_contract_evaluations": cast_events, "cast_contract_violations": contract_bad,
        "exhaustive_8bit_source_cells": sum(1 for it in kept if it.get("states_fn")),
        "states_per_program": nst,
    })
    run.assumptions = ["C reference = gcc -O0 -fwrapv", "register writes compare the architectural width only"]
    run.finish(cov, hard_inconclusive=None if fam.stats["evaluations"] > 0 and cast_events > 0 else "no cast was observed / no execution compared")


def replay(path):
    import json

    r = json.load(open(path))
    if r.get("kind") == "cast_contract":
        S = pipeline.Session()
        res = S.compile_stmts([dict(text=r["text"], subs=[tuple(s) for s in r.get("subs", [])])])[0]
        bad = diffcheck.cast_contract(res.get("trace", {}).get("casts", ()))
        print("contract violations now:", bad)
        return 1 if any(k == r["contract"] for k, _ in bad) else 0
    return diffcheck.replay_prog(path)
