"""C16 - both output layouts denote the same effect.

The same behaviour is compiled by two pristine compilers (READ_STATEMENTS and EXEC_CLASSES), each in a
forked child. Monitors: equal acceptance, equal attributes, both texts pass the well-formedness /
ownership / sort checkers, the resolved effect terms (C variables substituted, DUP deleted) are
structurally identical, and - as semantic backstop - the IL evaluator reaches identical final states
from the same initial states."""
import collections
import random

from .. import common, corpus, harness, outcheck, outfamily, pipeline
from .. import coracle as CO
from .. import diff as D
from .. import ilfront as IL


def main(tier):
    run = common.Run("C16", "exploration", tier)
    layouts = ("rs", "ec")
    S = pipeline.Session(layouts=layouts)
    beh = S.behaviors
    names = corpus.stratified_sample(beh, 120, run.seed) if tier == "quick" else sorted(beh)
    pairs = []  # (name, src, rs_text, ec_text, sub_defs)
    acc_mismatch = 0
    res = {l: S.compile_insns(names, layout=l) for l in layouts}
    for k, nm in enumerate(names):
        a, b = res["rs"][k], res["ec"][k]
        if a.get("timeout") or b.get("timeout") or a.get("harness_error") or b.get("harness_error"):
            run.note_inconclusive(f"{nm}: harness trouble")
            continue
        if bool(a.get("ok")) != bool(b.get("ok")):
            acc_mismatch += 1
            run.violation(f"{nm}: accepted in one layout, rejected in the other (rs ok={a.get('ok')}, ec ok={b.get('ok')}: {a.get('exc') or b.get('exc')})",
                          {"kind": "acceptance", "insn": nm}, key="acceptance")
            continue
        if not a.get("ok"):
            continue
        if a["meta"] != b["meta"]:
            run.violation(f"{nm}: attributes differ between layouts: {a['meta']} vs {b['meta']}", {"kind": "meta", "insn": nm, "rs": a["meta"], "ec": b["meta"]}, key="meta")
        for i, src in enumerate(beh[nm]):
            pairs.append((f"{nm}#{i}", src, a["rzil"][i], b["rzil"][i], None, nm))
    gi = outfamily.generated_items(run.seed, tier, "layouts")
    from .. import findings, gen as _gen

    for it in _gen.fold_programs(random.Random(run.seed), 12):
        if it["name"].startswith(("dead;", "cond;", "sizeof;")):
            gi.append(dict(name="fold:" + it["name"], text=it["text"]))
    gi += [dict(name="fold:deadexpr0", text="{ RdV = sizeof(RsV + 1) + RtV; }"), dict(name="fold:deadexpr1", text="{ RdV = 0 ? clz32(RsV + 1) : RtV + 2; }")]
    gres = {l: S.compile_stmts([dict(text=it["text"], layout=l, subs=it.get("subs", [])) for it in gi]) for l in layouts}
    for k, it in enumerate(gi):
        a, b = gres["rs"][k], gres["ec"][k]
        if a.get("timeout") or b.get("timeout") or a.get("harness_error") or b.get("harness_error"):
            run.note_inconclusive(f"{it['name']}: harness trouble")
            continue
        if bool(a.get("ok")) != bool(b.get("ok")):
            run.violation(f"`{it['text'][:100]}`: accepted in one layout only ({a.get('exc') or b.get('exc')})", {"kind": "acceptance", "text": it["text"], "subs": it.get("subs", [])}, key="acceptance")
            continue
        if not a.get("ok"):
            continue
        if a["meta"] != b["meta"]:
            run.violation(f"`{it['text'][:100]}`: attributes differ between layouts: {a['meta']} vs {b['meta']}", {"kind": "meta", "text": it["text"]}, key="meta")
        if (a.get("sub_defs") or {}) != (b.get("sub_defs") or {}):
            run.violation(f"`{it['text'][:100]}`: sub-routine definitions differ between layouts", {"kind": "subdefs", "text": it["text"], "subs": it.get("subs", [])}, key="subdefs")
        pairs.append((it["name"], it["text"], a["rzil"], b["rzil"], (a.get("sub_defs"), a.get("sub_sigs")), "gen:" + it["name"].split(":")[0].rstrip("0123456789")))
    nst = 12 if tier == "quick" else 48

    def work(pr):
        name, src, ta, tb, sd, vkey = pr
        out = {"struct_equal": None, "problems": [], "execs": 0, "exec_diff": None, "decls": 0}
        subs = S.subs_for(*(sd or (None, None)))
        terms = []
        for lay, t in (("rs", ta), ("ec", tb)):
            o = outcheck.check_output(src, t, subs)
            if o["syntax"] or o["wellformed"] or o["ownership"] or o["sorts"]:
                out["problems"].append((lay, (([o["syntax"]] if o["syntax"] else []) + o["wellformed"] + o["ownership"] + o["sorts"])[:3]))
            out["decls"] = max(out["decls"], o["decls"])
            try:
                terms.append(IL.resolve(IL.parse_body(t)) if t.strip() != "return NOP();" else ("NOP",))
            except IL.ILSyntaxError:
                terms.append(None)
        if None in terms:
            return out
        out["struct_equal"] = terms[0] == terms[1]
        ops = CO.scan_operands(src)
        rng = random.Random(f"{run.seed}:{name}")
        for _ in range(nst):
            st = CO.gen_state(rng, ops)
            fin = []
            for t in terms:
                kind, msg, m = D.eval_prog(t, ops, st, subs)
                fin.append((kind, msg if kind != "final" else None, D.il_final(m, ops, st, ()) if kind == "final" else None, dict(m.locals) if kind == "final" else None))
            if fin[0][0] == "unmodelled" or fin[1][0] == "unmodelled":
                continue
            out["execs"] += 1
            if fin[0] != fin[1] and out["exec_diff"] is None:
                out["exec_diff"] = (D._st_brief(st), str(fin[0])[:300], str(fin[1])[:300])
        return out

    results = harness.pmap(work, pairs)
    execs = 0
    nontrivial = 0
    struct_eq = 0
    samples = []
    for pr, r in zip(pairs, results):
        if not isinstance(r, dict):
            run.note_inconclusive(f"{pr[0]}: worker failed")
            continue
        execs += r["execs"]
        if r["decls"] >= 3:
            nontrivial += 1
        for lay, probs in r["problems"]:
            if pr[0].startswith("fold:") and findings.output_signature(pr[1], [x for x in probs if x]) and "dead_arm_operand" in run.findings:
                run.known("dead_arm_operand", {"source": pr[1], "layout": lay, "problems": probs[:2]})
                continue
            if findings.valueless_signature(pr[1], [x for x in probs if x]) and "valueless_expression_statement" in run.findings:
                run.known("valueless_expression_statement", {"source": pr[1], "layout": lay, "problems": probs[:2]})
                continue
            if pr[0].startswith("fold:") or (lay == "ec" and not any(l == "rs" for l, _ in r["problems"])):
                run.violation(f"{pr[0]}: the EXEC_CLASSES text is not well-formed/linear/well-sorted although the READ_STATEMENTS text is: {probs[0]}",
                              {"kind": "layout_illformed", "name": pr[0], "src": pr[1], "ec": pr[3], "problems": probs}, key="illformed:" + pr[5])
        if r["struct_equal"] is False and not pr[0].startswith("fold:"):
            run.violation(f"{pr[0]}: resolved effect terms of the two layouts differ structurally", {"kind": "structure", "name": pr[0], "src": pr[1], "rs": pr[2], "ec": pr[3]}, key="struct:" + pr[5])
        elif r["struct_equal"]:
            struct_eq += 1
        if r["exec_diff"]:
            run.violation(f"{pr[0]}: executing the two layouts from one state gives different final states", {"kind": "exec", "name": pr[0], "src": pr[1], "rs": pr[2], "ec": pr[3], "witness": r["exec_diff"]}, key="exec:" + pr[5])
        if len(samples) < 2 and r["struct_equal"] and r["decls"] > 6:
            samples.append({"name": pr[0], "source": pr[1][:160], "rs_lines": pr[2].count("\n"), "ec_lines": pr[3].count("\n"), "executions": r["execs"]})
    run.assumptions = ["final states are compared on the IL evaluator of this framework (registers written, memory, locals, jump, cancel)"]
    run.finish({
        "evaluations": len(pairs), "distinct_nontrivial": nontrivial,
        "rule": "one case = one behaviour part / generated program compiled in both layouts; non-trivial = the texts have at least 3 declarations",
        "samples": samples or [{"note": "none"}], "structurally_identical": struct_eq, "executions_compared": execs, "states_per_pair": nst,
        "corpus_instructions": len(names), "generated_programs": len(gi), "acceptance_mismatches": acc_mismatch,
    }, hard_inconclusive=None if pairs and struct_eq else "nothing compared")


def replay(path):
    import json

    print(json.dumps(json.load(open(path)), indent=1)[:3000])
    return 1
