"""C09 - compile-time evaluation agrees with run-time evaluation.

Programs whose expressions the compiler folds at compile time - literal typing (decimal/hex x
suffixes x values around 2^7..2^64), folded + - * unary + - ~, folded comparisons, constant ?:,
sizeof - are compiled by the real compiler; the emitted IL is executed and compared with the same text
compiled as C (where the expression is evaluated by gcc with C's literal types). Must-reject monitor for
inexact / zero division. Dead-operand monitor: programs whose constant ?: discards an operand that live
code uses are additionally passed through the well-formedness and ownership checkers."""
import random

from .. import common, diffcheck, gen, outcheck, pipeline


def dead_arm_signature(src, probs):
    from .. import findings

    return findings.output_signature(src, probs)


def main(tier):
    run = common.Run("C09", "exploration", tier)
    S = pipeline.Session()
    fam = diffcheck.Family(run, S, "C09")
    rng = random.Random(run.seed)
    items = gen.fold_programs(rng, 80 if tier == "quick" else 600)
    if tier == "quick":
        # the literal matrix is large: keep every 3rd literal spelling per family (seeded), everything else in full
        keep = []
        for it in items:
            if it["name"].startswith("lit;") and rng.random() > 0.34:
                continue
            keep.append(it)
        items = keep
    fam.replay_witnesses()
    progs, kept = fam.compile(items)
    # must-reject monitor
    accepted_names = {p.name for p in progs}
    must = [it for it in items if it.get("must_reject")]
    for it in must:
        if it["name"] in accepted_names:
            run.violation(f"`{it['text']}` cannot be folded exactly but was accepted", {"kind": "must_reject", "text": it["text"], "name": it["name"]}, key="must_reject:" + it["name"])
    # fold events observed by the hooks (removed operands = constant operands the compiler folded away)
    folds = sum(len(it.get("_trace", {}).get("ops_removed", ())) for it in kept)
    # dead-operand monitor: C11/C12 on the outputs
    dead_checked = 0
    for p in progs:
        if not p.name.startswith("dead;") and not p.name.startswith("cond;"):
            continue
        dead_checked += 1
        o = outcheck.check_output(p.src, p.rzil, S.base_subs)
        probs = ([o["syntax"]] if o["syntax"] else []) + o["wellformed"] + o["ownership"]
        if probs:
            mech = dead_arm_signature(p.src, probs)
            if mech and run.known(mech, {"source": p.src, "problems": probs[:3]}):
                p.extra["skip_diff"] = True
            else:
                run.violation(f"discarding the dead arm damaged the output of `{p.src}`: {probs[0]}", {"kind": "dead_operand", "text": p.src, "problems": probs, "emitted": p.rzil}, key="dead:" + p.name)
                p.extra["skip_diff"] = True
    nst = 24 if tier == "quick" else 96
    dprogs = [p for p in progs if not p.extra.get("skip_diff")]
    fam.differential(dprogs, nst, clang=(tier == "thorough"), key_of=lambda p: p.name)
    cov = fam.coverage()
    cov.update({
        "evaluations": fam.stats["evaluations"], "distinct_nontrivial": len(fam.nontrivial),
        "rule": "one case = (program with compile-time evaluable sub-expressions, state) with a defined C execution; distinct non-trivial = distinct program "
                "whose compared executions all agreed",
        "samples": fam.samples or [{"note": "none"}], "states_per_program": nst, "literal_spellings": len(gen.literal_spellings()),
        "must_reject_programs": len(must), "must_reject_raised": sum(1 for it in must if it["name"] not in accepted_names),
        "constant_operands_folded_away": folds, "dead_operand_outputs_checked": dead_checked,
    })
    run.assumptions = ["C reference = gcc -O0 -fwrapv (LP64: int 32, long/long long 64 bit)", "literals that are not valid ISO C (decimal above LLONG_MAX without U) are not generated"]
    run.finish(cov, hard_inconclusive=None if fam.stats["evaluations"] > 0 else "no execution compared")


def replay(path):
    import json

    rp = json.load(open(path))
    if rp.get("kind") in ("must_reject", "dead_operand"):
        S = pipeline.Session()
        r = S.compile_stmts([dict(text=rp["text"])])[0]
        if rp["kind"] == "must_reject":
            print("accepted" if r.get("ok") else f"rejected: {r.get('exc')}")
            return 1 if r.get("ok") else 0
        if not r.get("ok"):
            print("rejected now")
            return 0
        o = outcheck.check_output(rp["text"], r["rzil"], S.base_subs)
        print(o["wellformed"], o["ownership"])
        return 1 if o["wellformed"] or o["ownership"] or o["syntax"] else 0
    return diffcheck.replay_prog(path)
