"""C15 - nothing in the source is silently dropped: translate it or raise.

(1) Must-raise monitor: every construct the compiler does not translate (break, continue, goto, label,
    comma expression, while, do, switch, unknown function, ->, ., [], *p, &x, return without value) is
    placed at every statement / expression position around supported code; a compile that returns text
    instead of raising is the refuting event.
(2) Conservation monitor on accepted programs: the side-effecting items the independent parser finds in
    the source (assignments by target kind, ++/--, stores, jumps, sub-routine calls) are counted and
    compared with the operations in the emitted effect term; every effect object the compiler created
    (hook on add_op) is either declared in the emitted text, or removed for a dead constant arm; every
    declared effect is used exactly once (ownership counter).
(3) Differential execution of the same accepted programs against C."""
import collections
import random
import re

from .. import common, diffcheck, gen, outcheck, pipeline
from .. import cparse as CP
from .. import ilfront as IL

STMT_CONSTRUCTS = {
    "break": "break;",
    "continue": "continue;",
    "goto": "goto L1;",
    "label": "L1: q = q + 1;",
    "comma_stmt": "q = 1, ReV = 2;",
    "while": "while (q) { q = q - 1; }",
    "do": "do { q = q - 1; } while (q);",
    "switch": "switch (q) { case 1: q = 2; }",
    "switch_nolabel": "switch (q) { q = 2; }",
    "switch_bare": "switch (q) q = 2;",
    "switch_default": "switch (q) { default: q = 2; }",
    "while_empty": "while (q) ;",
    "if_else_switch": "if (q) { q = 1; } else switch (q) { q = 3; }",
    "unknown_fn_stmt": "frobnicate(q);",
    "return_void": "return;",
    "member_stmt": "q.x = 1;",
    "index_stmt": "q[1] = 2;",
    "deref_stmt": "*q = 3;",
}
EXPR_CONSTRUCTS = {
    "comma": "(q = 1, q + 2)",
    "unknown_fn": "frobnicate(q)",
    "arrow": "q->x",
    "member": "q.x",
    "index": "q[1]",
    "deref": "(*q)",
    "addrof": "(&q)",
    "preinc": "(++q)",
}
STMT_POSITIONS = {
    "top": "{{ int32_t q = RsV; ReV = q; {c} RddV = q; }}",
    "first": "{{ int32_t q = RsV; {c} ReV = q; }}",
    "last": "{{ int32_t q = RsV; ReV = q; {c} }}",
    "then": "{{ int32_t q = RsV; if (q > 1) {{ ReV = 1; {c} }} RddV = q; }}",
    "else": "{{ int32_t q = RsV; if (q > 1) {{ ReV = 1; }} else {{ {c} ReV = 2; }} }}",
    "loop": "{{ int32_t q = RsV; for (i = 0; i < 3; i++) {{ ReV = i; {c} }} RddV = q; }}",
    "block": "{{ int32_t q = RsV; {{ {{ {c} }} ReV = q; }} }}",
    "stmtexpr": "{{ int32_t q = RsV; ReV = ({{ {c} q; }}); }}",
    "bare_then": "{{ int32_t q = RsV; if (q > 1) {c} ReV = q; }}",
}
EXPR_POSITIONS = {
    "rhs": "{{ int32_t q = RsV; ReV = {c}; }}",
    "operand": "{{ int32_t q = RsV; ReV = RtV + {c} * 2; }}",
    "cond": "{{ int32_t q = RsV; if ({c}) {{ ReV = 1; }} }}",
    "forcond": "{{ int32_t q = RsV; for (i = 0; i < {c}; i++) {{ ReV = i; }} }}",
    "arg": "{{ int32_t q = RsV; ReV = clz32({c}); }}",
    "arm": "{{ int32_t q = RsV; ReV = (RtV > 0) ? {c} : 3; }}",
    "store_val": "{{ int32_t q = RsV; mem_store_u32(RtV, {c}); }}",
    "store_addr": "{{ int32_t q = RsV; mem_store_u32({c}, RtV); }}",
    "cast": "{{ int32_t q = RsV; RddV = (int64_t) {c}; }}",
    "init": "{{ int32_t q = RsV; int32_t w = {c}; ReV = w; }}",
    "jump": "{{ int32_t q = RsV; JUMP({c}); }}",
}


def inventory(ast):
    """side-effecting items of the source by kind"""
    inv = collections.Counter()
    for n in CP.subterms(ast):
        if not isinstance(n, tuple) or not n:
            continue
        k = n[0]
        if k == "assign":
            l = n[2]
            if isinstance(l, tuple) and l[0] in ("reg", "xreg", "alias"):
                inv["reg_write"] += 1
            elif isinstance(l, tuple) and l[0] == "id":
                inv["local_write"] += 1
            if isinstance(n[3], tuple) and n[3] and n[3][0] == "assign":
                pass
        elif k == "decl" and len(n) == 4:
            inv["local_write"] += 1
        elif k in ("post", "pre"):
            inv["incdec"] += 1
        elif k == "store":
            inv["store"] += 1
        elif k == "jump":
            inv["jump"] += 1
        elif k == "call" and n[1] not in ("sizeof",) and n[1] not in MACROS:
            inv["call:" + n[1]] += 1
    return inv


MACROS = {"extract32", "extract64", "sextract64", "deposit32", "deposit64", "bswap16", "bswap32", "bswap64", "REGFIELD", "get_corresponding_CS",
          "FLOAT", "DOUBLE", "fUNFLOAT", "fUNDOUBLE", "HEX_GET_INSN_RMODE", "fatal"}


def emitted_inventory(term, subs):
    inv = collections.Counter()
    for n in IL.walk(term):
        if not isinstance(n, tuple) or not n:
            continue
        k = n[0]
        if k == "WRITE_REG":
            inv["reg_write"] += 1
        elif k == "SETL":
            nm = n[1][1]
            if nm == "jump_flag":
                inv["jump"] += 1
            elif nm.startswith("h_tmp") or nm in ("jump_target", "ret_val"):
                pass
            else:
                inv["local_write"] += 1
        elif k == "STOREW":
            inv["store"] += 1
        elif k.startswith("hex_"):
            inv["call:" + k[4:]] += 1
        elif k == "HEX_GET_NPC":
            inv["call:get_npc"] += 1
        elif k == "HEX_STORE_SLOT_CANCELLED":
            inv["call:STORE_SLOT_CANCELLED"] += 1
    return inv


EFFECT_CLASSES = {"Assignment", "Sequence", "Branch", "ForLoop", "MemStore", "Jump", "NOP", "SubRoutineCall", "Call", "PostfixIncDec", "GCCStmtDeclExpr"}


def main(tier):
    run = common.Run("C15", "exploration", tier)
    S = pipeline.Session()
    fam = diffcheck.Family(run, S, "C15")
    rng = random.Random(run.seed)
    # ---- (1) must raise
    must = []
    for cn, c in STMT_CONSTRUCTS.items():
        for pn, p in STMT_POSITIONS.items():
            if pn == "bare_then" and cn in ("label",):
                continue
            must.append((f"{cn}@{pn}", p.format(c=c)))
    for cn, c in EXPR_CONSTRUCTS.items():
        for pn, p in EXPR_POSITIONS.items():
            must.append((f"{cn}@{pn}", p.format(c=c)))
    kf_sources = {}
    for mech, e in run.findings.items():
        w = e.get("witness") or {}
        if w.get("source") and w.get("kind") in ("parse", "must_raise"):
            kf_sources[w["source"]] = (mech, w.get("absent"))
            must.append((f"kf:{mech}", w["source"]))
    res = S.compile_stmts([dict(text=t) for _, t in must])
    raised = collections.Counter()
    accepted_bad = 0
    pairs = set()
    for (name, t), r in zip(must, res):
        if r.get("timeout") or r.get("harness_error"):
            run.note_inconclusive(f"{name}: harness trouble")
            continue
        if r.get("ok"):
            if name.startswith("kf:"):
                absent = kf_sources[t][1]
                if absent is None or absent not in r["rzil"]:
                    run.known(name[3:], {"source": t, "emitted_tail": r["rzil"][-120:]})
                else:
                    print(f"INFO property=C15 listed finding {name[3:]} did not reproduce: the output mentions {absent}")
                continue
            accepted_bad += 1
            run.violation(f"untranslated construct accepted without an error ({name}): `{t}` -> {r['rzil'].strip().splitlines()[-2][:120] if r['rzil'].count(chr(10)) > 1 else r['rzil'][:80]}",
                          {"kind": "must_raise", "name": name, "text": t, "emitted": r["rzil"]}, key="must_raise:" + name.split("@")[0])
        else:
            if name.startswith("kf:"):
                print(f"INFO property=C15 listed finding {name[3:]} did not reproduce: `{t}` is now rejected")
                continue
            raised[r["exc"]["inner"]] += 1
            pairs.add(name)
    # ---- (2)+(3) accepted programs: conservation + differential
    g = gen.G(rng, avoid=("const_cond",))
    items = []
    for i in range(160 if tier == "quick" else 2500):
        text, ex = g.program(depth=rng.choice([1, 2, 3]), nstmts=(2, 6))
        items.append(dict(name=f"prog{i}", text=text, exports=ex, vkey="prog"))
    items += [it for it in gen.hybrid_programs(random.Random(run.seed + 1), 0) if not it["name"].startswith(("se;", "loopcond;")) and not it["name"].endswith((";arm", ";seq"))]
    # statement-expressions with 1..4 statements in front of the value (accepted or rejected - but never partly dropped)
    for n in range(1, 5):
        body = " ".join(f"v{k} = v{k} + {k + 1};" for k in range(n))
        decl = " ".join(f"int32_t v{k} = RsV;" for k in range(4))
        items.append(dict(name=f"stmtexpr{n}", text=f"{{ {decl} ReV = ({{ {body} v0; }}); RddV = v0 + v1 + v2 + v3; }}", exports=[(f"v{k}", "int32_t") for k in range(4)], vkey="stmtexpr"))
        regs = ["RxV = 1;", "RyyV = 2;", "mem_store_u8(RtV, 3);", "ReV = 4;"][:n]
        items.append(dict(name=f"stmtexprreg{n}", text=f"{{ RddV = ({{ {' '.join(regs)} RsV; }}); }}", vkey="stmtexpr"))
    fam.replay_witnesses()
    for nm, text in gen.opname_local_texts():
        items.append(dict(name=f"opname;{nm}", text=text, exports=[(nm, "int32_t")], vkey="opname"))
    for name, text in gen.chained_assignments(random.Random(run.seed + 2), False):
        if name.startswith(("chain4", "chainregs")) or rng.random() < 0.1:
            items.append(dict(name=name, text=text, exports=gen.cast_exports(name), vkey="chain"))
    progs, kept = fam.compile(items)
    conserved = 0
    effects_created = 0
    for p in progs:
        it = p.extra["item"]
        try:
            ast = CP.parse(p.src)
        except CP.ParseError as e:
            run.note_inconclusive(f"{p.name}: reference parser rejects: {e}")
            continue
        src_inv = inventory(ast)
        try:
            body = IL.parse_body(p.rzil)
            term = IL.resolve(body)
        except IL.ILSyntaxError as e:
            run.violation(f"emitted text unreadable for `{p.src[:100]}`: {e}", {"kind": "syntax", "text": p.src, "emitted": p.rzil}, key="syntax")
            continue
        em_inv = emitted_inventory(term, S.base_subs)
        missing = {k: (v, em_inv.get(k, 0)) for k, v in src_inv.items() if k != "incdec" and em_inv.get(k, 0) < v}
        # ++/-- become one extra write of their operand
        if src_inv["incdec"] and em_inv["local_write"] + em_inv["reg_write"] < src_inv["local_write"] + src_inv["reg_write"] + src_inv["incdec"]:
            missing["incdec"] = (src_inv["incdec"], "writes: %d" % (em_inv["local_write"] + em_inv["reg_write"]))
        if missing:
            run.violation(f"side-effecting source items without counterpart in the emitted effect for `{p.src[:140]}`: {missing} (source items vs emitted operations)",
                          {"kind": "conservation", "text": p.src, "missing": missing, "emitted": p.rzil, "exports": p.exports}, key="conservation:" + ",".join(sorted(k.split(":")[0] for k in missing)))
            continue
        # created effects vs declared effects
        declared = {d[2] for d in body.decls if d[0] == "RzILOpEffect"}
        created = [n for cls, n in it.get("_trace", {}).get("ops_added", ()) if cls in EFFECT_CLASSES]
        removed = set(it.get("_trace", {}).get("ops_removed", ()))
        effects_created += len(created)
        lost = [n for n in created if n not in declared and n not in removed and not re.search(r"_call_\d+$|^gcc_expr", n) and n not in p.rzil]
        if lost:
            run.violation(f"effects created by the compiler but neither emitted nor discarded for a dead arm: {lost[:4]} in `{p.src[:120]}`",
                          {"kind": "lost_effect", "text": p.src, "lost": lost, "emitted": p.rzil}, key="lost_effect")
            continue
        own = [x for x in IL.ownership(body) if x.startswith("effect")]
        if own:
            run.violation(f"effect declared but not sequenced exactly once: {own[0]} in `{p.src[:120]}`", {"kind": "unsequenced", "text": p.src, "problems": own, "emitted": p.rzil}, key="unsequenced")
            continue
        conserved += 1
    nst = 24 if tier == "quick" else 96
    fam.differential(progs, nst, key_of=lambda p: p.name)
    cov = fam.coverage()
    cov.update({
        "evaluations": len(must) + len(progs), "distinct_nontrivial": len(pairs),
        "rule": "one case = one program; must-raise cases place one untranslated construct at one statement/expression position; distinct non-trivial = "
                "distinct (construct, position) pairs that raised; accepted programs are checked for conservation of their side-effecting items and executed against C",
        "samples": [{"construct@position": n, "text": t} for n, t in must[:3]] + fam.samples[:1],
        "must_raise_programs": len(must), "raised_by_exception": dict(raised), "accepted_without_error": accepted_bad,
        "constructs": sorted(list(STMT_CONSTRUCTS) + list(EXPR_CONSTRUCTS)), "positions": sorted(list(STMT_POSITIONS) + list(EXPR_POSITIONS)),
        "accepted_programs_conserved": conserved, "effect_objects_created": effects_created, "executions_compared": fam.stats["evaluations"],
    })
    run.assumptions = ["the list of untranslated constructs is the property's; side-effect inventory by the independent parser",
                       "a sub-routine call counts as represented when hex_<name>( occurs in the resolved effect"]
    run.finish(cov, hard_inconclusive=None if pairs and conserved else "nothing checked")


def replay(path):
    import json

    rp = json.load(open(path))
    S = pipeline.Session()
    r = S.compile_stmts([dict(text=rp["text"])])[0]
    if rp.get("kind") == "must_raise":
        print("accepted" if r.get("ok") else f"rejected: {r.get('exc')}")
        return 1 if r.get("ok") else 0
    print(json.dumps(rp, indent=1)[:2000])
    return 1
