"""C06 - value-producing side effects happen exactly once, in order, only when selected.

Generated placements of postfix ++/--, calls to bundled and generated sub-routines (also as
value-unused statements) and GCC statement-expressions in initialisers, assignments, conditions, loop
steps, call arguments and ?: arms. Monitors: differential execution against C; the evaluator's def-use
monitor (every h_tmpN read must be preceded by a write in the same execution); a once-only monitor
through a generated sub-routine that increments a by-reference register each time it is executed."""
import random

from .. import common, diffcheck, gen, pipeline
from . import c05


def main(tier):
    run = common.Run("C06", "exploration", tier)
    S = pipeline.Session()
    fam = diffcheck.Family(run, S, "C06")
    rng = random.Random(run.seed)
    items = gen.hybrid_programs(rng, 160 if tier == "quick" else 2500)
    # value-producing operations in folded-away arms followed by further ones (numbering and guards of the surviving operations)
    items += [dict(it, name="fold;" + it["name"]) for it in gen.fold_programs(random.Random(run.seed), 12) if it["name"].startswith(("dead;hyb", "dead;postfix", "dead;call", "dead;se"))]
    # the same placements on an aged compiler (temporaries numbered 9, 10, 99, 100 ... : names that sort differently)
    aged_items = []
    for it in items:
        if not it["name"].startswith("mix") and len(it.get("_", "")) == 0:
            for aged in (9, 99):
                a = dict(it)
                a["name"] = f"{it['name']}@aged{aged}"
                a["aged"] = aged
                aged_items.append(a)
    items += aged_items if tier == "thorough" else rng.sample(aged_items, 60)
    for it in items:
        it["states_fn"] = c05.trip_states
    fam.replay_witnesses()
    progs, kept = fam.compile(items)
    # numbering monitor: the same placement compiled with temporaries numbered from 9 / 99 must give the same code modulo the names
    from .c14 import normalise

    by_name = {p.name: p for p in progs}
    numbering_pairs = 0
    for p in progs:
        if "@aged" in p.name:
            base = by_name.get(p.name.split("@aged")[0])
            if base is None:
                continue
            numbering_pairs += 1
            if normalise(base.rzil) != normalise(p.rzil):
                run.violation(f"emitted code depends on how many temporaries were numbered before ({p.name}): `{p.src[:100]}`",
                              {"kind": "numbering", "name": p.name, "text": p.src, "fresh": base.rzil, "aged": p.rzil, "aged_by": p.extra["item"].get("aged")}, key="numbering:" + p.name.split(";")[0])
    nst = 40 if tier == "quick" else 160
    hyb_reads = [0]

    def nontrivial(p, r):
        hyb_reads[0] += r.hyb_reads
        return r.hyb_reads > 0 or r.calls > 0

    fam.differential(progs, nst, clang=(tier == "thorough"), nontrivial=nontrivial, key_of=lambda p: p.name)
    cov = fam.coverage()
    cov.update({
        "evaluations": fam.stats["evaluations"], "distinct_nontrivial": len(fam.nontrivial),
        "rule": "one case = (program, state) with a defined C execution; a program is distinct non-trivial when all compared executions agreed and at "
                "least one hybrid temporary was read or one callee body was executed by the IL evaluator",
        "samples": fam.samples or [{"note": "none"}], "states_per_program": nst, "hybrid_temporary_reads_observed": hyb_reads[0],
        "placement_templates": sum(1 for it in kept if not it["name"].startswith("mix")), "fresh_vs_aged_pairs_compared": numbering_pairs,
        "hybrids_resolved_by_compiler": sum(len(it.get("_trace", {}).get("hyb", ())) for it in kept),
    })
    run.assumptions = ["C reference = gcc -O0 -fwrapv + UBSan handlers", "callee bodies are inlined in the caller's flat local namespace (what the plugin does)"]
    run.finish(cov, hard_inconclusive=None if fam.stats["evaluations"] > 0 and hyb_reads[0] > 0 else "no hybrid was observed")


def replay(path):
    return diffcheck.replay_prog(path)
