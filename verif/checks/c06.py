"""C06 - value-producing side effects happen exactly once, in order, only when selected.

Generated placements of postfix ++/--, calls to bundled and generated sub-routines (also as
value-unused statements) and GCC statement-expressions in initialisers, assignments, conditions, loop
steps, call arguments and ?: arms. Monitors: differential execution against C; the evaluator's def-use
monitor (every h_tmpN read must be preceded by a write in the same execution); a once-only monitor
through a generated sub-routine that increments a by-reference register each time it is executed."""
import random

from .. import common, diffcheck, gen, pipeline
from . import c05


def main(tier):
    run = common.Run("C06", "exploration", tier)
    S = pipeline.Session()
    fam = diffcheck.Family(run, S, "C06")
    rng = random.Random(run.seed)
    items = gen.hybrid_programs(rng, 160 if tier == "quick" else 2500)
    for it in items:
        it["states_fn"] = c05.trip_states
    fam.replay_witnesses()
    progs, kept = fam.compile(items)
    nst = 40 if tier == "quick" else 160
    hyb_reads = [0]

    def nontrivial(p, r):
        hyb_reads[0] += r.hyb_reads
        return r.hyb_reads > 0 or r.calls > 0

    fam.differential(progs, nst, clang=(tier == "thorough"), nontrivial=nontrivial, key_of=lambda p: p.name)
    cov = fam.coverage()
    cov.update({
        "evaluations": fam.stats["evaluations"], "distinct_nontrivial": len(fam.nontrivial),
        "rule": "one case = (program, state) with a defined C execution; a program is distinct non-trivial when all compared executions agreed and at "
                "least one hybrid temporary was read or one callee body was executed by the IL evaluator",
        "samples": fam.samples or [{"note": "none"}], "states_per_program": nst, "hybrid_temporary_reads_observed": hyb_reads[0],
        "placement_templates": sum(1 for it in kept if not it["name"].startswith("mix")),
        "hybrids_resolved_by_compiler": sum(len(it.get("_trace", {}).get("hyb", ())) for it in kept),
    })
    run.assumptions = ["C reference = gcc -O0 -fwrapv + UBSan handlers", "callee bodies are inlined in the caller's flat local namespace (what the plugin does)"]
    run.finish(cov, hard_inconclusive=None if fam.stats["evaluations"] > 0 and hyb_reads[0] > 0 else "no hybrid was observed")


def replay(path):
    return diffcheck.replay_prog(path)
