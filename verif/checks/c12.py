"""C12 - IL node ownership is linear: one consuming use, DUP for the rest.

Offline counter over every emitted text: per RzILOpPure/RzILOpBool variable exactly one
occurrence outside DUP(...), per RzILOpEffect variable exactly one occurrence, per borrowed pure
parameter at most one un-DUPed occurrence, nothing initialised and never used."""
import collections

from .. import common, findings, outfamily, pipeline


def main(tier):
    run = common.Run("C12", "translation_validation", tier)
    # both layouts: with EXEC_CLASSES every created operation is emitted, also one that nothing consumes
    S = pipeline.Session(layouts=("rs", "ec"))
    outs = outfamily.collect(run, S, tier, "own", layouts=("rs", "ec"), corpus_n=110, gen_scale=0.7)
    res = outfamily.run_checks(S, outs.items)
    bad = 0
    variables = 0
    samples = []
    texts = set()
    for it, r in zip(outs.items, res):
        if not isinstance(r, dict):
            run.note_inconclusive(f"{it['name']}: checker crashed {str(r)[:120]}")
            continue
        if r["syntax"]:
            run.violation(f"emitted text cannot be read back ({it['name']}): {r['syntax']}", {"kind": "syntax", "item": it}, key="syntax:" + it["vkey"])
            continue
        texts.add(it["rzil"])
        variables += r["decls"]
        if r["ownership"] and findings.output_signature(it["src"], r["ownership"]) and run.known("dead_arm_operand", {"source": it["src"], "problems": r["ownership"][:2]}):
            bad += 1
        elif r["ownership"] and findings.valueless_signature(it["src"], r["ownership"]) and run.known("valueless_expression_statement", {"source": it["src"], "problems": r["ownership"][:2]}):
            bad += 1
        elif r["ownership"]:
            bad += 1
            for pr in r["ownership"][:3]:
                kind = " ".join(pr.split()[:1] + pr.split()[2:5])
                run.violation(f"ownership ({it['name']}): {pr} :: source `{it['src'][:100]}`",
                              {"kind": "ownership", "name": it["name"], "src": it["src"], "emitted": it["rzil"], "problems": r["ownership"], "subs": it.get("subs", []), "layout": it.get("layout", "rs")},
                              key=f"{kind}:{it['vkey']}")
        elif len(samples) < 3 and r["decls"] > 8 and it["kind"] != "subdef":
            samples.append({"name": it["name"], "source": it["src"][:200], "variables_counted": r["decls"], "DUP_uses": it["rzil"].count("DUP(")})
    run.assumptions = ["every occurrence of a variable in a later initialiser is a use (the IL tree is built eagerly in C)",
                       "const HexOp handles are C values, not IL nodes, and are not counted"]
    run.finish({
        "programs": len(texts), "disagreements_checked": bad, "samples": samples or [{"note": "none"}],
        "evaluations": len(outs.items), "distinct_nontrivial": len(texts),
        "variables_counted": variables, "texts_by_kind": dict(collections.Counter(it["kind"] for it in outs.items)),
        "compiles": outs.compiled, "layouts": ["READ_STATEMENTS", "EXEC_CLASSES"], "rejected": dict(outs.rejected), "grammar_rules_reached": len(outs.rules),
    }, hard_inconclusive=None if variables > 0 else "no variable counted")


def replay(path):
    from . import c10

    return c10.replay(path)
