"""C10 - emitted effects are well-sorted under RzIL typing, on every path.

Offline checker over every emitted text (translation validation per output): the text is parsed
back, C variables resolved, and every node of the effect term - all BRANCH/ITE arms, loop bodies,
inlined callee bodies - is typed with the rules of rz_il_validate (DESIGN appendix B)."""
import collections

from .. import common, findings, outfamily, pipeline


def main(tier):
    run = common.Run("C10", "translation_validation", tier)
    S = pipeline.Session()
    outs = outfamily.collect(run, S, tier, "sorts")
    res = outfamily.run_checks(S, outs.items)
    nodes = 0
    ops = collections.Counter()
    rules = collections.Counter()
    bad = 0
    unknown = 0
    samples = []
    texts = set()
    for it, r in zip(outs.items, res):
        if not isinstance(r, dict):
            run.note_inconclusive(f"{it['name']}: checker crashed {str(r)[:120]}")
            continue
        if r["syntax"]:
            run.violation(f"emitted text cannot be read back ({it['name']}): {r['syntax']}", {"kind": "syntax", "item": it}, key="syntax:" + it["vkey"])
            continue
        texts.add(it["rzil"])
        nodes += r["nodes"]
        for k, v in r["ops"].items():
            ops[k] += v
        for k, v in r["rules"].items():
            rules[k] += v
        if r["unknown"]:
            unknown += 1
            run.note_inconclusive(f"{it['name']}: {r['unknown'][:2]}")
        if r["sorts"] and findings.redeclared_signature(it["src"], probs=r["sorts"]) and run.known("flat_local_namespace", {"source": it["src"], "problems": r["sorts"][:2]}):
            bad += 1
        elif r["sorts"]:
            bad += 1
            for pr in r["sorts"][:3]:
                rule = pr.split(":")[0]
                run.violation(f"ill-sorted effect ({it['name']}): {pr} :: source `{it['src'][:100]}`",
                              {"kind": "sorts", "name": it["name"], "src": it["src"], "emitted": it["rzil"], "problems": r["sorts"], "subs": it.get("subs", []), "layout": it.get("layout", "rs")},
                              key=f"{rule}:{it['vkey']}")
        elif len(samples) < 3 and r["nodes"] > 20 and it["kind"] != "subdef":
            samples.append({"name": it["name"], "source": it["src"][:200], "nodes_typed": r["nodes"], "ops": dict(list(r["ops"].items())[:8])})
    run.assumptions = ["typing rules are this framework's mirror of rz_il_validate (DESIGN appendix B), incl. one sort per local variable name over the whole effect with callee bodies inlined",
                       "operand widths come from the documented register classes of the source tokens"]
    run.finish({
        "programs": len(texts), "disagreements_checked": bad, "samples": samples or [{"note": "none"}],
        "evaluations": len(outs.items), "distinct_nontrivial": len(texts),
        "nodes_typed": nodes, "distinct_op_kinds": len(ops), "op_kinds": dict(ops.most_common(60)), "rule_firings": dict(rules),
        "texts_by_kind": dict(collections.Counter(it["kind"] for it in outs.items)), "compiles": outs.compiled, "rejected": dict(outs.rejected),
        "texts_with_unknown_macro": unknown, "grammar_rules_reached": len(outs.rules),
    }, hard_inconclusive=None if nodes > 0 else "no node typed")


def replay(path):
    import json

    from .. import outcheck

    rp = json.load(open(path))
    S = pipeline.Session(layouts=(rp.get("layout", "rs"),))
    if rp.get("src"):
        r = S.compile_stmts([dict(text=rp["src"], subs=[tuple(s) for s in rp.get("subs", [])], layout=rp.get("layout", "rs"))])[0]
        if not r.get("ok"):
            nm = rp["name"].split("#")[0]
            if nm in S.behaviors:
                rr = S.compile_insns([nm], layout=rp.get("layout", "rs"))[0]
                part = int(rp["name"].split("#")[1].split("@")[0])
                text = rr["rzil"][part] if rr.get("ok") else None
            else:
                text = None
        else:
            text = r["rzil"]
        if text is None:
            print("now rejected")
            return 0
        o = outcheck.check_output(rp["src"], text, S.subs_for(r.get("sub_defs"), r.get("sub_sigs")))
    else:
        o = outcheck.check_output("", rp["emitted"], S.base_subs)
    print(o["sorts"], o["wellformed"], o["ownership"], o["syntax"])
    key = {"sorts": "sorts", "ownership": "ownership", "wellformed": "wellformed", "syntax": "syntax"}.get(rp.get("kind"), "sorts")
    return 1 if o[key] else 0
