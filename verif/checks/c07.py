"""C07 - operands are bound to the right architectural resource, width and .new flag.

One tiny program per operand spelling the grammar admits (register class x access letter x
single/pair x V/N, explicit Rn/Pn/Cn:m with and without _NEW, every alias the resources name, every
immediate letter, every load/store width/sign, jump, PC):
  structural monitor - the handles the emitted effect resolves (ISA2REG slot+flag, EXPLICIT2OP
    number+class+flag, ALIAS2OP enum+flag, NREG2OP slot), the READ_REG flags, the ISA2IMM letter, C
    cast and SN/UN, LOADW/STOREW widths must be the ones the documented token patterns imply
    (independent operand table, DESIGN appendix C);
  value monitor - the program is executed by the IL evaluator with independent random values in
    the old and the new bank of every handle and compared with the same text compiled as C whose
    variables are initialised from the documented bank."""
import random
import re

from .. import common, diffcheck, pipeline
from .. import coracle as CO
from .. import ilfront as IL

SRC1 = ["s", "t", "u", "v", "w"]
SRC2 = ["ss", "tt", "uu", "vv"]
DST1 = ["d", "e"]
DST2 = ["dd"]
RW1 = ["x", "y", "z"]
RW2 = ["xx", "yy"]
ALIASES = ["LR", "SP", "FP", "GP", "USR", "SA0", "LC0", "SA1", "LC1", "FRAMEKEY", "UGP", "M0", "M1", "CS0", "CS1", "FRAMELIMIT",
           "UPCYCLE", "PKTCOUNT", "UTIMER", "PKTCNTHI", "PKTCNTLO", "UPCYCLEHI", "UPCYCLELO", "UTIMERHI", "UTIMERLO"]


def width_of(cls, ids):
    pair = len(ids) == 2
    return (16 if pair else 8) if cls == "P" else (64 if pair else 32)


def spellings():
    """-> list of dict(name, text, expect) ; expect = list of structural expectations"""
    out = []

    def dest_for(slot, w):
        # a destination whose slot letter differs from the operand's
        if w == 64 or True:
            return "RddV" if slot != "d" else "RyyV"

    def src_for(slot, w):
        return ("RssV" if slot != "s" else "RttV") if w == 64 else ("RsV" if slot != "s" else "RtV")

    for cls in ["R", "C", "M", "P"]:
        for ids in SRC1 + SRC2 + RW1 + RW2 + DST1 + DST2:
            w = width_of(cls, ids)
            tok = f"{cls}{ids}V"
            slot = ids[0]
            # read
            flag = slot in "de"
            out.append(dict(name=f"read;{tok}", text=f"{{ {dest_for(slot, w)} = (int64_t) {tok}; }}",
                            expect=[("read", ("slot", slot, False), flag, w)]))
            # write (sources can be assigned too: the compiler upgrades them to read-write)
            out.append(dict(name=f"write;{tok}", text=f"{{ {tok} = {src_for(slot, 64)}; }}", expect=[("write", ("slot", slot, False), w)]))
            # read after write: the later read must see the value written by this behaviour (differential only)
            out.append(dict(name=f"rw;{tok}", text=f"{{ {tok} = {tok} + {src_for(slot, w)}; {dest_for(slot, w)} = (int64_t) {tok}; {tok} = {tok} ^ 5; }}", expect=[]))
        for ids in SRC1 + SRC2:
            w = width_of(cls, ids)
            tok = f"{cls}{ids}N"
            out.append(dict(name=f"read;{tok}", text=f"{{ {dest_for(ids[0], w)} = (int64_t) {tok}; }}", expect=[("read", ("slot", ids[0], True), True, w)]))
    for ids in ["s", "t"]:
        out.append(dict(name=f"read;N{ids}N", text=f"{{ RddV = (int64_t) N{ids}N; }}", expect=[("read", ("nreg", ids, True), True, 32)]))
    # explicit registers
    expl = [("R0", "HEX_REG_CLASS_INT_REGS", 0, 32), ("R31", "HEX_REG_CLASS_INT_REGS", 31, 32), ("R13", "HEX_REG_CLASS_INT_REGS", 13, 32), ("P0", "HEX_REG_CLASS_PRED_REGS", 0, 8),
            ("P1", "HEX_REG_CLASS_PRED_REGS", 1, 8), ("P2", "HEX_REG_CLASS_PRED_REGS", 2, 8), ("P3", "HEX_REG_CLASS_PRED_REGS", 3, 8), ("C1", "HEX_REG_CLASS_CTR_REGS", 1, 32),
            ("C3:2", "HEX_REG_CLASS_CTR_REGS64", 2, 64), ("C1:0", "HEX_REG_CLASS_CTR_REGS64", 0, 64), ("R31:30", "HEX_REG_CLASS_DOUBLE_REGS", 30, 64), ("R1:0", "HEX_REG_CLASS_DOUBLE_REGS", 0, 64),
            ("M0", "HEX_REG_CLASS_MOD_REGS", 0, 32), ("M1", "HEX_REG_CLASS_MOD_REGS", 1, 32)]
    for tok, klass, num, w in expl:
        out.append(dict(name=f"read;{tok}", text=f"{{ RddV = (int64_t) {tok}; }}", expect=[("read", ("expl", klass, num, False), False, w)]))
        out.append(dict(name=f"read;{tok}_NEW", text=f"{{ RddV = (int64_t) {tok}_NEW; }}", expect=[("read", ("expl", klass, num, True), True, w)]))
        out.append(dict(name=f"write;{tok}", text=f"{{ RdV = 1; {tok} = RssV; }}", expect=[("write", ("expl", klass, num, False), w)]))
        out.append(dict(name=f"rw;{tok}", text=f"{{ {tok} = {tok} + RsV; RddV = (int64_t) {tok}; }}", expect=[]))
    for a in ALIASES:
        w = 64 if a in CO.ALIAS64 else 32
        out.append(dict(name=f"read;alias;{a}", text=f"{{ RddV = (int64_t) HEX_REG_ALIAS_{a}; }}", expect=[("read", ("alias", a, False), False, w)]))
        out.append(dict(name=f"read;alias;{a}_NEW", text=f"{{ RddV = (int64_t) HEX_REG_ALIAS_{a}_NEW; }}", expect=[("read", ("alias", a, True), True, w)]))
        out.append(dict(name=f"write;alias;{a}", text=f"{{ HEX_REG_ALIAS_{a} = RssV; }}", expect=[("write", ("alias", a, False), w)]))
        out.append(dict(name=f"rw;alias;{a}", text=f"{{ HEX_REG_ALIAS_{a} = HEX_REG_ALIAS_{a} + RsV; RddV = (int64_t) HEX_REG_ALIAS_{a}; }}", expect=[]))
    out.append(dict(name="read;alias;PC", text="{ RddV = (int64_t) HEX_REG_ALIAS_PC; ReV = HEX_REG_ALIAS_PC + siV; }", expect=[("pc",)]))
    # immediates
    for l in "rRsSuUmn":
        signed = l in "rRsS"
        out.append(dict(name=f"imm;{l}", text=f"{{ RddV = (int64_t) {l}iV; ReV = {l}iV >> 4; }}", expect=[("imm", l, signed)]))
    # lower- and upper-case immediates of one letter in one behaviour, in both orders; all eight together
    for lo, up in (("s", "S"), ("u", "U"), ("r", "R")):
        out.append(dict(name=f"imm2;{lo}{up}", text=f"{{ RddV = (int64_t) {lo}iV - {up}iV; ReV = {up}iV; }}", expect=[("imm", lo, lo in "rs"), ("imm", up, up in "RS")]))
        out.append(dict(name=f"imm2;{up}{lo}", text=f"{{ RddV = (int64_t) {up}iV - {lo}iV; ReV = {lo}iV; }}", expect=[("imm", lo, lo in "rs"), ("imm", up, up in "RS")]))
    out.append(dict(name="imm8;all", text="{ RddV = (int64_t) riV + RiV * 3 + siV * 5 + SiV * 7 + uiV * 11 + UiV * 13 + miV * 17 + niV * 19; }",
                    expect=[("imm", l, l in "rRsS") for l in "rRsSuUmn"]))
    # memory
    for s in "su":
        for w in (8, 16, 32, 64):
            out.append(dict(name=f"load;{s}{w}", text=f"{{ EA = RsV + siV; RddV = (int64_t) mem_load_{s}{w}(EA); }}", expect=[("load", w)]))
            out.append(dict(name=f"load2;{s}{w}", text=f"{{ RddV = (int64_t) mem_load_{s}{w}(RsV + uiV); }}", expect=[("load", w)]))
    for w in (8, 16, 32, 64):
        out.append(dict(name=f"store;u{w}", text=f"{{ mem_store_u{w}(RsV + siV, RttV); }}", expect=[("store", w)]))
        out.append(dict(name=f"store2;u{w}", text=f"{{ EA = RsV + (uiV << 2); mem_store_u{w}(EA, RtV); mem_store_u{w}(EA + 8, 0x1234567890LL); }}", expect=[("store", w)]))
    # width monitor: sizeof(operand) and use as 64-bit arithmetic operand, address and store data, for every readable spelling
    extra = []
    for it in out:
        if it["name"].startswith("read;"):
            tok = it["name"].split(";", 1)[1]
            tokc = ("HEX_REG_ALIAS_" + tok.split(";")[1]) if tok.startswith("alias;") else tok
            slot = tokc[1] if re.match(r"[RCMPN][a-z]", tokc) else ""
            dst = "RddV" if slot != "d" else "RyyV"
            src = "RssV" if slot != "s" else "RttV"
            dst32 = "ReV" if slot != "e" else "RxV"
            extra.append(dict(name=f"width;{tok}", text=f"{{ {dst32} = sizeof({tokc}) + sizeof({tokc} + 1); }}", expect=[]))
            extra.append(dict(name=f"arith;{tok}", text=f"{{ {dst} = {tokc} + {src}; }}", expect=[]))
            if not tokc.startswith("P"):
                extra.append(dict(name=f"addr;{tok}", text=f"{{ mem_store_u16({tokc}, {src}); {dst} = (int64_t) mem_load_s8({tokc}); }}", expect=[]))
            extra.append(dict(name=f"data;{tok}", text=f"{{ mem_store_u64({'RsV' if slot != 's' else 'RtV'}, {tokc}); }}", expect=[]))
    out.extend(extra)
    # address expressions that are 64 bit wide: the effective address is their low 32 bits
    for k, a in enumerate(["RssV", "RssV + 8", "RsV + 4LL", "(int64_t) RsV", "RsV + RuuV", "(RssV >> 4)"]):
        out.append(dict(name=f"addr64;{k}", text=f"{{ mem_store_u16({a}, RtV); RddV = (int64_t) mem_load_s8({a}); ReV = mem_load_u32({a}); }}", expect=[]))
    out.append(dict(name="jump;32", text="{ JUMP(RsV); }", expect=[("jump",)]))
    out.append(dict(name="jump;64", text="{ JUMP(RssV + 4); }", expect=[("jump",)]))
    out.append(dict(name="jump;cond", text="{ if (PuV & 1) { JUMP(HEX_REG_ALIAS_PC + riV); } }", expect=[("jump",)]))
    out.append(dict(name="jump;imm", text="{ HEX_REG_ALIAS_LR = HEX_REG_ALIAS_PC + 4; JUMP(riV); }", expect=[("jump",)]))
    return out


def lift_order(rzil):
    """The plugin's READ_REG(pkt, op, false) decides when it is CALLED (while the effect is built) whether it reads the register or its
    _tmp copy ("Rx is always read newly. Since we read the _tmp reg after it was written once", Register.py). A pure variable initialised
    with such a read BEFORE a WRITE_REG of the same operand therefore holds the old register; using that variable in a declaration that
    comes AFTER the write reads a stale value. -> list of problems (textual order of the declarations = call order)"""
    probs = []
    b = IL.parse_body(rzil)

    def key(t):
        while isinstance(t, tuple) and t and t[0] in ("addr", "DUP"):
            t = t[1]
        return t[1] if isinstance(t, tuple) and t and t[0] == "id" else repr(t)

    deps = {}       # pure variable -> {operand key: index of the declaration whose READ_REG call fetched it}
    writes = {}     # operand key -> indices of declarations that call WRITE_REG on it
    for idx, (ty, ptr, name, term) in enumerate(b.decls):
        mine = {}
        for n in IL.walk(term):
            if not isinstance(n, tuple) or not n:
                continue
            if n[0] == "READ_REG" and n[3] == ("id", "false"):
                mine.setdefault(key(n[2]), idx)
            elif n[0] == "id" and n[1] in deps:
                for k, i0 in deps[n[1]].items():
                    stale = [w for w in writes.get(k, []) if i0 < w < idx]
                    if stale:
                        probs.append(f"{name} uses {n[1]}, which was read from {k} before the WRITE_REG of {k} (declarations {i0} < {stale[0]} < {idx}): stale read")
                    mine.setdefault(k, i0)
        for n in IL.walk(term):
            if isinstance(n, tuple) and n and n[0] == "WRITE_REG":
                writes.setdefault(key(n[2]), []).append(idx)
        if ty == "RzILOpPure" or ty == "RzILOpBool":
            deps[name] = mine
    return probs


def structural(src, rzil, expect):
    """-> list of problems"""
    probs = []
    body = IL.parse_body(rzil)
    term = IL.resolve(body)
    reads, writes, imms, loads, stores, jumps = [], [], [], [], [], []
    for n in IL.walk(term):
        if not isinstance(n, tuple) or not n:
            continue
        if n[0] == "READ_REG":
            try:
                reads.append((IL.handle_of(n[2], None), n[3] == ("id", "true")))
            except IL.Unmodelled as e:
                probs.append(f"unreadable handle {e}")
        elif n[0] == "WRITE_REG":
            try:
                writes.append(IL.handle_of(n[2], None))
            except IL.Unmodelled as e:
                probs.append(f"unreadable handle {e}")
        elif n[0] in ("SN", "UN") and isinstance(n[2], tuple) and n[2][0] == "ccast" and n[2][2][0] == "ISA2IMM":
            imms.append((n[0], n[1], n[2][1], n[2][2][2][1]))
        elif n[0] == "LOADW":
            loads.append(n[1][1])
        elif n[0] == "STOREW":
            stores.append(n)
        elif n[0] == "SETL" and n[1][1] in ("jump_flag", "jump_target"):
            jumps.append(n)
    for e in expect:
        if e[0] == "read":
            _, h, flag, w = e
            hit = [r for r in reads if r[0][:len(h) - 1] == h[:-1]]
            if not hit:
                probs.append(f"no READ_REG through the handle {h[:-1]} (reads: {reads})")
                continue
            for hh, fl in hit:
                if hh[-1] != h[-1] and h[0] != "nreg":
                    probs.append(f"handle {h[:-1]} resolved with is_new={hh[-1]}, the token implies {h[-1]}")
                if fl != flag:
                    probs.append(f"READ_REG of {h[:-1]} with flag {fl}, the token implies {flag}")
        elif e[0] == "write":
            _, h, w = e
            hit = [x for x in writes if x[:len(h) - 1] == h[:-1]]
            if not hit:
                probs.append(f"no WRITE_REG through the handle {h[:-1]} (writes: {writes})")
            for hh in hit:
                if hh[-1] is not False and hh[0] != "nreg":
                    probs.append(f"WRITE_REG through a .new handle {hh}")
        elif e[0] == "imm":
            _, l, signed = e
            hit = [x for x in imms if x[3] == l]
            if not hit:
                probs.append(f"immediate {l} is not fetched with ISA2IMM(hi, '{l}') (found {imms})")
            for mac, w, cast, _ in hit:
                if (mac == "SN") != signed or cast != ("st32" if signed else "ut32") or w != ("num", 32, ""):
                    probs.append(f"immediate {l}: {mac}({w[1]}, ({cast}) ...) but the letter implies {'signed' if signed else 'unsigned'} 32 bit")
        elif e[0] == "load":
            if e[1] not in loads:
                probs.append(f"no LOADW of {e[1]} bits (found {loads})")
        elif e[0] == "store":
            if not stores:
                probs.append("no STOREW")
        elif e[0] == "jump":
            names = {j[1][1] for j in jumps}
            if names != {"jump_flag", "jump_target"}:
                probs.append(f"jump must set jump_flag and jump_target, found {sorted(names)}")
            for j in jumps:
                if j[1][1] == "jump_flag" and j[2] != ("id", "IL_TRUE"):
                    probs.append("jump_flag is not set to IL_TRUE")
        elif e[0] == "pc":
            if not any(n == ("U32", ("member", "pkt", "pkt_addr")) for n in IL.walk(term)):
                probs.append("the PC alias does not read pkt->pkt_addr")
    return probs


def main(tier):
    run = common.Run("C07", "exploration", tier)
    S = pipeline.Session()
    fam = diffcheck.Family(run, S, "C07")
    sp = spellings()
    items = [dict(name=s["name"], text=s["text"], vkey=s["name"].split(";")[0] + ":" + re.sub(r"\d+", "N", s["name"].split(";")[1]), expect=s["expect"]) for s in sp]
    fam.replay_witnesses()
    progs, kept = fam.compile(items)
    struct_ok = 0
    for p in progs:
        it = p.extra["item"]
        try:
            probs = structural(p.src, p.rzil, it["expect"]) + lift_order(p.rzil)
        except IL.ILSyntaxError as e:
            probs = [f"emitted text unreadable: {e}"]
        if probs:
            run.violation(f"operand binding ({it['name']}): {probs[0]} :: `{p.src}`", {"kind": "structural", "name": it["name"], "text": p.src, "problems": probs, "emitted": p.rzil}, key="struct:" + it["vkey"])
        else:
            struct_ok += 1
    # the lift-order monitor over emitted texts of the corpus (quick: sample) and of statement programs with re-read registers
    from .. import corpus as CORP, gen

    names = CORP.stratified_sample(S.behaviors, 200, run.seed) if tier == "quick" else sorted(S.behaviors)
    lift_texts = 0
    for nm, r in zip(names, S.compile_insns(names)):
        if not r.get("ok"):
            continue
        for i, z in enumerate(r["rzil"]):
            lift_texts += 1
            try:
                pr = lift_order(z)
            except IL.ILSyntaxError:
                continue
            if pr:
                run.violation(f"operand binding ({nm}#{i}): {pr[0]}", {"kind": "lift_order", "insn": nm, "part": i, "problems": pr, "emitted": z}, key="lift:corpus")
    g = gen.G(random.Random(run.seed + 11), avoid=("const_cond",))
    gtexts = [g.program(depth=2, nstmts=(2, 6))[0] for _ in range(120 if tier == "quick" else 1500)]
    gtexts += ["{ RdV = RsV; RsV = RtV + 1; ReV = RsV; }", "{ RxV = RxV + 1; if (RsV) { RxV = RxV * 2; } RdV = RxV; }", "{ RyyV = RyyV + RssV; RddV = RyyV; }", "{ PxV = PxV & PsV; PdV = PxV; }",
               "{ RddV = RssV; RssV = RttV; RyyV = RssV; }", "{ for (i = 0; i < 3; i++) { RxV = RxV + RsV; } RdV = RxV; }", "{ P0 = RsV; RdV = P0; P0 = P0 + 1; ReV = P0; }"]
    for t, r in zip(gtexts, S.compile_stmts([dict(text=t) for t in gtexts])):
        if not r.get("ok"):
            continue
        lift_texts += 1
        try:
            pr = lift_order(r["rzil"])
        except IL.ILSyntaxError:
            continue
        if pr:
            run.violation(f"operand binding: {pr[0]} :: `{t[:120]}`", {"kind": "lift_order", "text": t, "problems": pr, "emitted": r["rzil"]}, key="lift:gen")
    nst = 16 if tier == "quick" else 96
    fam.differential(progs, nst, nontrivial=lambda p, r: r.changed > 0, key_of=lambda p: p.name)
    cov = fam.coverage()
    cov.update({
        "evaluations": fam.stats["evaluations"] + len(progs), "distinct_nontrivial": len(fam.nontrivial),
        "rule": "one case = (operand spelling program, bank state); distinct non-trivial = distinct accepted spellings whose structural expectations hold and "
                "whose executions (independent values in old and new bank) all agree with C and change an observable",
        "samples": fam.samples or [{"note": "none"}], "spellings": len(sp), "spellings_accepted": len(progs), "spellings_rejected": len(sp) - len(progs),
        "structural_ok": struct_ok, "states_per_spelling": nst, "texts_through_lift_order_monitor": lift_texts + len(progs),
    })
    run.assumptions = ["operand table = DESIGN appendix C (register classes and widths, documented signedness, immediate letters)",
                       "alias/explicit registers that are read and assigned through the plain spelling start with equal banks (lenient point of DESIGN section 3)"]
    run.finish(cov, hard_inconclusive=None if fam.stats["evaluations"] > 0 and struct_ok > 50 else "too little observed")


def replay(path):
    import json

    rp = json.load(open(path))
    if rp.get("kind") == "structural":
        S = pipeline.Session()
        r = S.compile_stmts([dict(text=rp["text"])])[0]
        if not r.get("ok"):
            print("rejected now", r.get("exc"))
            return 0
        exp = [s for s in spellings() if s["name"] == rp["name"]][0]["expect"]
        pr = structural(rp["text"], r["rzil"], exp)
        print(pr)
        return 1 if pr else 0
    return diffcheck.replay_prog(path)
