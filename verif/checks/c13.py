"""C13 - reported instruction attributes are exactly those of the instruction itself.

Oracle: the attribute set recomputed from the part's own text by the independent parser.
Workloads: (A) corpus parts and generated programs compiled first in a pristine forked child;
(B) the same items compiled in long-lived children after random histories - permutations, failing
inputs in between, a second Compiler in the same process, both entry points - with an invariant hook
after every compile event: all attribute flags (including the list of written predicates) are back
to their initial value."""
import collections
import contextlib
import io
import random

from .. import common, corpus, harness, pipeline
from .. import cparse as CP

CONSTRUCTS = {
    "if": "if (RsV > 0) {{ {x} }}",
    "new": "{x} RxV = RxV + NsN;",
    "pnew": "{x} if (PuN & 1) {{ RxV = 1; }}",
    "xnew": "{x} RxV = RxV + P0_NEW;",
    "load": "{x} RxV = RxV + ((size2s_t)(mem_load_s16(RsV)));",
    "store": "{x} mem_store_u32(RtV, RxV);",
    "jump": "{x} JUMP(RsV);",
    "pd": "{x} PdV = RsV;",
    "p0": "{x} P0 = RsV;",
    "p1": "{x} P1 = RtV;",
    "p2": "{x} P2 = 1;",
    "p3": "{x} P3 = RsV & 1;",
    "anew": "{x} RxV = RxV + HEX_REG_ALIAS_LC0_NEW;",
    "anew2": "{x} if (HEX_REG_ALIAS_USR_NEW & 1) {{ RxV = 2; }}",
    "aread": "{x} RxV = RxV + HEX_REG_ALIAS_LR;",
    "awrite": "{x} HEX_REG_ALIAS_SA0 = RsV;",
    "ptn": "{x} RxV = RxV + PtN;",
    "ntn": "{x} mem_store_u16(RsV, NtN);",
    "pe": "{x} PeV = 1;",
    "px": "{x} PxV = PxV & RsV;",
    "tern": "{x} RxV = (RsV > 0) ? RtV : 2;",
    "loop": "{x} for (i = 0; i < 2; i++) {{ RxV = RxV + i; }}",
    "call": "{x} RxV = clz32(RxV);",
    "cancel": "{x} if (PvV & 1) {{ STORE_SLOT_CANCELLED(pkt, slot); }}",
    "rxn": "{x} RxV = RxV + RxN;",
    "pxn": "{x} if (PxN & 1) {{ RxV = 3; }}",
    "ryyn": "{x} RxV = RxV + (RyyN >> 32);",
    "rzn": "{x} RxV = RxV ^ RzN;",
    "pchain0": "{x} P0 = RxV = RsV;",
    "pchain1": "{x} PdV = RxV = RtV;",
    "pchain2": "{x} P0 = P1 = RsV;",
    "pchain3": "{x} RxV = P2 = RsV;",
    "pcompound": "{x} P3 |= RsV;",
    "pparen": "{x} RxV = (P1 = RsV) + 1;",
    "plain": "{x} RxV = RxV + RtV;",
    "usr": "{x} set_usr_field(bundle, HEX_REG_FIELD_USR_OVF, 1);",
}


def gen_programs(rng, n):
    keys = list(CONSTRUCTS)
    out = []
    for k in keys:
        out.append("{ " + CONSTRUCTS[k].format(x="") + " }")
    for _ in range(n):
        ks = rng.sample(keys, rng.randint(1, 5))
        body = ""
        for k in ks:
            if k == "if":
                body = CONSTRUCTS[k].format(x=body)
            else:
                body = CONSTRUCTS[k].format(x=body)
        out.append("{ " + body + " }")
    return sorted(set(out))


FAILING = ["{ RdV = ; }", "{ RdV = unknown_fn(RsV); }", "{ P0 = foo(RsV); P1 = 1; }", "{ int32_t zz = RsV; RdV = bar(zz); }", "{ PdV = mem_load_s8(RsV) +; }",
           "{ if (RsV) { P2 = nofn(1); } }", "{ RdV = NsN + qux(1); }", "{ mem_store_u8(RsV, RtV); JUMP(frob(RsV)); }",
           # the first leaf raises after its flag is set, before any operation exists / every flag is set before the failure
           "{ if (OsN) { RdV = RsV; } }", "{ OsN; }", "{ if (PuN) { RdV = mem_load_u32(RsV); mem_store_u32(RsV, RtV); P1 = 1; JUMP(RtV); RdV = foo(RsV); } }"]


def history_child(job):
    """long-lived child: compile a recorded history on one (or two) compilers; returns events"""
    comps, hist = job
    events = []
    for step in hist:
        c = comps[step["comp"]]
        ev = {"i": step["i"], "kind": step["kind"], "comp": step["comp"], "entry": step["entry"]}
        try:
            with contextlib.redirect_stdout(io.StringIO()):
                if step["entry"] == "stmt":
                    c.compile_c_stmt(step["text"])
                    ev["meta"] = harness.TRACE.meta
                else:
                    from rzilcompiler.Parser import ParsedInsn

                    asts = [c.parser.parse(b) for b in step["parts"]]
                    insn = c.transform_insn(step["name"], ParsedInsn(step["name"], asts, step["parts"]))
                    ev["meta"] = [list(m) for m in insn.meta]
        except BaseException as e:  # noqa
            ev["exc"] = harness.exc_info(e)["inner"]
        # invariant hook: after every compile event all flags are reset
        ext = c.transformer.ext
        ev["flags_after"] = [bool(ext.is_conditional), bool(ext.uses_new), bool(ext.writes_mem), bool(ext.reads_mem), bool(ext.branches), bool(ext.writes_predicate), list(ext.preds_written)]
        events.append(ev)
    return events


def main(tier):
    run = common.Run("C13", "exploration", tier)
    S = pipeline.Session()
    rng = random.Random(run.seed)
    beh = S.behaviors
    noped = set(S.comps["rs"].noped_insns)
    # ---- (A) pristine
    names = corpus.stratified_sample(beh, 150, run.seed, must=["C4_and_and", "C2_cmpeq", "J2_jumpt", "L2_loadrd_io", "S2_storerd_io", "J4_cmpgti_tp0_jump_t", "R6_release_at_vi"]) if tier == "quick" else sorted(beh)
    res = S.compile_insns(names)
    evaluations = 0
    nontrivial = set()
    samples = []
    unparsed = 0
    part_oracle = {}
    for nm, r in zip(names, res):
        if not r.get("ok"):
            continue
        for i, b in enumerate(beh[nm]):
            try:
                exp = CP.attributes_of(b, noped=S.comps["rs"].ext.transform_insn_name(nm) in noped)
            except CP.ParseError as e:
                unparsed += 1
                run.note_inconclusive(f"{nm}#{i}: reference parser rejects the accepted text: {e}")
                continue
            part_oracle[(nm, i)] = exp
            got = r["meta"][i]
            evaluations += 1
            if sorted(got) != sorted(exp) or len(got) != len(set(got)):
                run.violation(f"{nm} part {i}: reported attributes {got}, the text implies {exp}", {"kind": "pristine", "insn": nm, "part": i, "text": b, "reported": got, "expected": exp},
                              key="pristine:" + ",".join(sorted(set(got) ^ set(exp))))
            elif exp != ["HEX_IL_INSN_ATTR_NONE"]:
                nontrivial.add((nm, i))
                if len(samples) < 3 and len(exp) >= 2:
                    samples.append({"insn": nm, "part": i, "text": b[:160], "attributes": got})
    progs = gen_programs(rng, 120 if tier == "quick" else 1500)
    pres = S.compile_stmts([dict(text=t) for t in progs])
    gen_oracle = {}
    for t, r in zip(progs, pres):
        if not r.get("ok"):
            continue
        exp = CP.attributes_of(t)
        gen_oracle[t] = exp
        got = r["meta"]
        evaluations += 1
        if got is None or sorted(got) != sorted(exp) or len(got) != len(set(got)):
            run.violation(f"`{t[:120]}`: reported attributes {got}, the text implies {exp}", {"kind": "pristine", "text": t, "reported": got, "expected": exp},
                          key="pristine:" + ",".join(sorted(set(got or []) ^ set(exp))))
        elif exp != ["HEX_IL_INSN_ATTR_NONE"]:
            nontrivial.add(t)
    # unimplemented -> INVALID
    from rzilcompiler.Compiler import RZILInstruction

    inv = RZILInstruction.get_unimplemented_rzil_instr("X_unimpl")
    evaluations += 1
    if inv.meta != [["HEX_IL_INSN_ATTR_INVALID"]]:
        run.violation(f"unimplemented instruction reports {inv.meta}", {"kind": "invalid", "reported": inv.meta}, key="invalid")
    # ---- (B) histories in long-lived children
    short = [(nm, beh[nm]) for nm in names if (nm, 0) in part_oracle and all((nm, i) in part_oracle for i in range(len(beh[nm]))) and sum(len(b) for b in beh[nm]) < 260]
    rng.shuffle(short)
    short = short[: (40 if tier == "quick" else 300)]
    gens = [t for t in progs if t in gen_oracle]
    nhist = 16 if tier == "quick" else 96
    comps2 = {"A": S.comps["rs"], "B": harness.new_compiler("rs")}
    jobs = []
    for h in range(nhist):
        r2 = random.Random(f"{run.seed}:hist:{h}")
        hist = []
        pool = [("gen", t) for t in r2.sample(gens, min(len(gens), 30))] + [("insn", x) for x in r2.sample(short, min(len(short), 10))]
        r2.shuffle(pool)
        two = h % 3 == 0
        for i, (kind, x) in enumerate(pool):
            comp = r2.choice(["A", "B"]) if two else "A"
            if r2.random() < 0.2:
                ftext = r2.choice(FAILING)
                if ftext != FAILING[0] and ftext != FAILING[4] and r2.random() < 0.4:  # parseable: let it fail inside transform_insn
                    hist.append({"i": -1, "kind": "fail", "comp": comp, "entry": "insn", "name": "FAILING_INSN", "parts": [ftext], "text": ftext})
                else:
                    hist.append({"i": -1, "kind": "fail", "comp": comp, "entry": "stmt", "text": ftext})
            if kind == "gen":
                hist.append({"i": i, "kind": "gen", "comp": comp, "entry": "stmt", "text": x})
            else:
                hist.append({"i": i, "kind": "insn", "comp": comp, "entry": "insn", "name": x[0], "parts": x[1]})
        jobs.append((comps2, hist))
    hres = harness.pmap(history_child, jobs)
    hist_cases = 0
    leak_events = 0
    fail_events = 0
    for (comps_, hist), events in zip(jobs, hres):
        if not isinstance(events, list):
            run.note_inconclusive(f"history child failed: {str(events)[:200]}")
            continue
        prev = []
        for step, ev in zip(hist, events):
            if ev["flags_after"] != [False, False, False, False, False, False, []]:
                leak_events += 1
                run.violation(f"attribute flags not reset after a compile event ({step['kind']} via {step['entry']}): {ev['flags_after']}",
                              {"kind": "reset", "step": step, "flags_after": ev["flags_after"], "history": prev[-6:]}, key="reset")
            if step["kind"] == "fail":
                fail_events += 1
                prev.append(step.get("text"))
                continue
            if "exc" in ev:
                run.violation(f"item accepted when compiled first is rejected after a history: {ev['exc']}", {"kind": "history_reject", "step": step, "history": prev[-8:]}, key="history_reject")
                continue
            hist_cases += 1
            if step["kind"] == "gen":
                exp = [gen_oracle[step["text"]]]
                got = [ev["meta"]]
            else:
                exp = [part_oracle[(step["name"], i)] for i in range(len(step["parts"]))]
                got = ev["meta"]
            for g, e in zip(got, exp):
                if g is None or sorted(g) != sorted(e) or len(g) != len(set(g)):
                    run.violation(f"attributes depend on history: {step.get('text') or step.get('name')} reports {g}, its text implies {e} (after {len(prev)} earlier compiles)",
                                  {"kind": "history", "step": step, "reported": g, "expected": e, "history": prev[-8:]}, key="history:" + ",".join(sorted(set(g or []) ^ set(e))))
            prev.append(step.get("text") or step.get("name"))
    run.assumptions = ["the oracle works on the text of the part (an operand in a constant-folded dead arm still counts as read)",
                       "assignments to the P3:0 alias are not generated (whether they count as predicate write is not defined by the property)"]
    run.finish({
        "evaluations": evaluations + hist_cases, "distinct_nontrivial": len(nontrivial),
        "rule": "one case = (part or generated program, history) whose reported attribute list is compared with the list recomputed from its own text; "
                "distinct non-trivial = distinct part/program with a non-NONE expected set that matched when compiled first",
        "samples": samples or [{"note": "none"}], "pristine_cases": evaluations, "history_cases": hist_cases, "histories": len(jobs),
        "failing_inputs_interleaved": fail_events, "reset_invariant_violations": leak_events, "corpus_parts": len(part_oracle), "generated_programs": len(gen_oracle),
        "reference_parser_rejects": unparsed,
    }, hard_inconclusive=None if evaluations > 10 and hist_cases > 10 else "too few comparisons")


def replay(path):
    import json

    rp = json.load(open(path))
    print(json.dumps(rp, indent=1)[:2500])
    if rp.get("kind") == "pristine" and rp.get("text"):
        S = pipeline.Session()
        r = S.compile_stmts([dict(text=rp["text"])])[0]
        print("now reported:", r.get("meta"), "expected:", rp["expected"])
        return 1 if r.get("ok") and sorted(r["meta"] or []) != sorted(rp["expected"]) else 0
    return 1
