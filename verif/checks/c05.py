"""C05 - statements take effect in source order under exactly C's conditions.

Generated statement trees (all assignment operators on 32/64-bit targets, if/else chains, for loops
with every trip count 0..8, nested and data-dependent loops, interleaved register/local/memory
writes, declarations, empty statements, nested blocks) are compiled by the real compiler and the
emitted IL is executed against the same text compiled as C. The evaluator's coverage (arms of every
BRANCH/ITE, trip counts of every REPEAT) is part of the evidence."""
import random

from .. import common, diffcheck, gen, pipeline
from .. import coracle as CO


def trip_states(rng, ops):
    """drive data-dependent bounds through all small values"""
    out = []
    for v in range(0, 10):
        st = CO.gen_state(rng, ops)
        for k, o in enumerate(ops):
            if o["kind"] == "imm" or (o["kind"] == "reg" and o["slot"] in ("s", "t") and rng.random() < 0.7):
                nv = (rng.getrandbits(o["w"]) & ~0xF) | v if rng.random() < 0.5 else v
                nv &= (1 << o["w"]) - 1
                if o["kind"] == "imm":
                    st["imm"][o["letter"]] = nv
                else:
                    st["old"][o["key"]] = nv
                st["vals"][k] = nv
        out.append(st)
    return out


def main(tier):
    run = common.Run("C05", "exploration", tier)
    S = pipeline.Session()
    fam = diffcheck.Family(run, S, "C05")
    rng = random.Random(run.seed)
    items = gen.stmt_programs(rng, 220 if tier == "quick" else 3000)
    for it in items:
        it["states_fn"] = trip_states
    fam.replay_witnesses()
    progs, kept = fam.compile(items)
    nst = 40 if tier == "quick" else 160
    res = fam.differential(progs, nst, clang=(tier == "thorough"),
                           nontrivial=lambda p, r: (r.arms_total > 0 and r.arms_seen == r.arms_total) or len(r.trips) >= 2, key_of=lambda p: p.name, deepen=(tier == "thorough"))
    cov = fam.coverage()
    cov.update({
        "evaluations": fam.stats["evaluations"], "distinct_nontrivial": len(fam.nontrivial),
        "rule": "one case = (program, state) with a defined C execution; a program is distinct non-trivial when all compared executions agreed and the "
                "evaluator saw both arms of every executed BRANCH/ITE or at least two different trip counts of a loop",
        "samples": fam.samples or [{"note": "none"}], "states_per_program": nst,
        "assignment_operator_cells": sum(1 for it in kept if it["name"].startswith("asg;")),
    })
    run.assumptions = ["C reference = gcc -O0 -fwrapv + UBSan handlers (division by zero, oversized shifts and INT_MIN/-1 are skipped)"]
    run.finish(cov, hard_inconclusive=None if fam.stats["evaluations"] > 0 else "no execution compared")


def replay(path):
    return diffcheck.replay_prog(path)
