"""C11 - emitted text is a well-formed C body with sound companion metadata.

(1) structural checker: every statement is a declaration with initialiser or the final return,
    declared exactly once and before use, valid identifiers, literals fit 64 bit, balanced parentheses;
(2) real-compiler second opinion: every body wrapped in a function and fed to
    `clang -fsyntax-only` against a stub plugin header (distinct incomplete types, prototyped macros);
(3) companion record: needs_hi/needs_pkt true whenever the text mentions hi/pkt, sub-routine bodies
    that mention them declare them, one getter name/declaration per part, getter names unique."""
import collections
import re

from .. import common, findings, outcheck, outfamily, pipeline
from .. import ilfront as IL


REJECTED = ["{ RdV = siV + nofn(RsV); }", "{ RdV = uiV; while (RsV) { RdV = 1; } }", "{ int32_t q = clz32(RsV) + nofn(1); }", "{ RdV = ; }", "{ RdV = RsV++ + frob(RtV); }",
            "{ ReV = (RsV > 0) ? ({ RxV = 1; RxV; }) : nofn(2); }", "{ mem_store_u8(RsV, siV); goto out; }"]


def history_outputs(run, S, tier):
    """one long-lived compiler per child: accepted programs compiled after rejected ones; every output through the structural checker"""
    import contextlib
    import io
    import random

    from .. import gen, harness

    comps = S.comps

    def child(seed):
        rng = random.Random(seed)
        g = gen.G(rng, avoid=("const_cond",))
        out = []
        c = comps["rs"]
        for i in range(30):
            if rng.random() < 0.4:
                t = rng.choice(REJECTED)
                kind = "rejected"
            else:
                t, _ = g.program(depth=rng.choice([1, 2]), nstmts=(1, 3))
                kind = "program"
            try:
                with contextlib.redirect_stdout(io.StringIO()):
                    z = c.compile_c_stmt(t)
            except BaseException:  # noqa
                out.append((kind, t, None))
                continue
            o = outcheck.check_output(t, z, S.base_subs)
            out.append((kind, t, ([o["syntax"]] if o["syntax"] else []) + o["wellformed"] + o["ownership"]))
        return out

    n = 0
    res = harness.pmap(child, [f"{run.seed}:c11hist:{k}" for k in range(8 if tier == "quick" else 48)])
    for r in res:
        if not isinstance(r, list):
            run.note_inconclusive(f"history child failed: {str(r)[:160]}")
            continue
        prev = []
        for kind, t, probs in r:
            if probs is not None:
                n += 1
                if probs:
                    run.violation(f"output compiled after a history of {len(prev)} compiles (last: {prev[-1][:60] if prev else '-'}) is not a well-formed body: {probs[0]} :: `{t[:100]}`",
                                  {"kind": "history_output", "text": t, "problems": probs, "history": prev[-6:]}, key="history_output:" + re.sub(r"\w+_\d+", "N", probs[0])[:40])
            prev.append(t)
    return n


def main(tier):
    run = common.Run("C11", "translation_validation", tier)
    layouts = ("rs", "ec")
    S = pipeline.Session(layouts=layouts)
    outs = outfamily.collect(run, S, tier, "wf", layouts=layouts, corpus_n=60, gen_scale=0.3 if tier == "quick" else 1.0)
    res = outfamily.run_checks(S, outs.items)
    bad = 0
    stmts = 0
    kf_names = set()
    samples = []
    texts = set()
    for it, r in zip(outs.items, res):
        if not isinstance(r, dict):
            run.note_inconclusive(f"{it['name']}: checker crashed {str(r)[:120]}")
            continue
        texts.add(it["rzil"])
        stmts += r["decls"] + 1
        probs = ([f"syntax: {r['syntax']}"] if r["syntax"] else []) + r["wellformed"]
        if probs and not r["syntax"] and findings.output_signature(it["src"], probs) and run.known("dead_arm_operand", {"source": it["src"], "problems": probs[:2]}):
            bad += 1
            kf_names.add(it["name"])
        elif probs:
            bad += 1
            for pr in probs[:3]:
                kind = re.sub(r"\b[\w]+_\d+\b|\b[A-Z][a-z]{1,2}(_new)?\b", "N", pr)[:50]
                run.violation(f"not a well-formed C body ({it['name']}): {pr} :: source `{it['src'][:100]}`",
                              {"kind": "wellformed" if not r["syntax"] else "syntax", "name": it["name"], "src": it["src"], "emitted": it["rzil"], "problems": probs, "subs": it.get("subs", []), "layout": it.get("layout", "rs")},
                              key=f"{kind}:{it['vkey']}")
        elif len(samples) < 2 and r["decls"] > 8 and it["kind"] != "subdef":
            samples.append({"name": it["name"], "source": it["src"][:160], "statements": r["decls"] + 1, "first_lines": it["rzil"].strip().split("\n")[:4]})
    # (2) clang
    bodies, subdefs = [], {}
    gen_decls = {}
    for it in outs.items:
        if it["kind"] == "subdef":
            n = it["name"].split(":")[1].split("@")[0]
            if n in S.base_defs:
                subdefs[n] = it["rzil"]
            continue
        bodies.append((it["name"], it["rzil"]))
        for n, d in (it.get("sub_defs") or {}).items():
            gen_decls[n] = d
    decls = outcheck.sub_decls({**S.base_defs, **gen_decls})
    clang_batches = 0
    clang_bad = 0
    B = 400
    for k in range(0, len(bodies), B):
        diag = outcheck.clang_syntax_check(bodies[k:k + B], decls, subdefs if k == 0 else None)
        clang_batches += 1
        for label, msgs in diag.items():
            if label in kf_names:
                continue  # already attributed to the listed finding by the structural checker
            clang_bad += 1
            it = next((i for i in outs.items if i["name"] == label), {"vkey": label, "src": "", "rzil": ""})
            run.violation(f"clang rejects the emitted body ({label}): {msgs[0]}",
                          {"kind": "clang", "name": label, "src": it.get("src"), "emitted": it.get("rzil"), "diagnostics": msgs[:5]},
                          key=f"clang:{re.sub(r'[0-9]+', 'N', msgs[0])[:60]}:{it['vkey']}")
    # (3) companion records
    getters = collections.defaultdict(set)
    recs = 0
    for r in outs.insn_records:
        recs += 1
        nm = r["src_name"]
        nparts = len(r["rzil"])
        g = r["getter"]
        if not (len(g["name"]) == len(g["fcn_decl"]) == nparts == len(r["needs_hi"]) == len(r["needs_pkt"]) == len(r["meta"])):
            run.violation(f"{nm}: companion lists have different lengths", {"kind": "record", "insn": nm, "record": {k: r[k] for k in ('getter', 'needs_hi', 'needs_pkt')}}, key="reclen")
        if len(set(g["name"])) != nparts:
            run.violation(f"{nm}: getter names of the parts are not distinct: {g['name']}", {"kind": "record", "insn": nm}, key="getter_parts")
        for i in range(nparts):
            txt = r["rzil"][i]
            if IL.mentions(txt, "hi") and not r["needs_hi"][i]:
                run.violation(f"{nm} part {i}: text mentions hi but needs_hi is false", {"kind": "record", "insn": nm, "emitted": txt}, key="needs_hi")
            if IL.mentions(txt, "pkt") and not r["needs_pkt"][i]:
                run.violation(f"{nm} part {i}: text mentions pkt but needs_pkt is false", {"kind": "record", "insn": nm, "emitted": txt}, key="needs_pkt")
            if not re.fullmatch(r"[A-Za-z_]\w*", g["name"][i]) or g["name"][i] not in g["fcn_decl"][i]:
                run.violation(f"{nm}: getter name/declaration malformed: {g['name'][i]!r} / {g['fcn_decl'][i]!r}", {"kind": "record", "insn": nm}, key="getter_form")
            if r["layout"] == "rs":
                getters[g["name"][i]].add(nm)
    # getter names for ALL bundled instruction names through the real naming functions (cheap: no compile)
    from rzilcompiler.Compiler import RZILInstruction

    ext = S.comps["rs"].ext
    for nm, parts in S.behaviors.items():
        try:
            insn = ext.transform_insn_name(nm)
        except NotImplementedError:
            continue
        for i in range(len(parts)):
            g = RZILInstruction.gen_hex_il_op_getter_name(insn, i if len(parts) > 1 else -1)
            getters[g].add(nm)
            d = RZILInstruction.gen_hex_il_op_getter_name(insn, i if len(parts) > 1 else -1, fcn_decl=True)
            if not re.fullmatch(r"[A-Za-z_]\w*", g) or f"*{g}(" not in d:
                run.violation(f"{nm}: getter name/declaration malformed: {g!r} / {d!r}", {"kind": "record", "insn": nm}, key="getter_form")
    # history workload: outputs of a long-lived compiler (rejected inputs in between) must be well-formed too
    hist_checked = history_outputs(run, S, tier)
    for gname, owners in getters.items():
        if len(owners) > 1:
            run.violation(f"getter name {gname} is produced by several instructions: {sorted(owners)}", {"kind": "record", "getter": gname, "insns": sorted(owners)}, key="getter_unique:" + gname)
    run.assumptions = ["the stub plugin header (verif/outcheck.py) fixes the C types of the IL/plugin macros: RzILOpPure, RzILOpEffect and HexOp are distinct types",
                       "instruction bodies are embedded in a function that declares bundle, pkt and hi"]
    run.finish({
        "programs": len(texts), "disagreements_checked": bad + clang_bad, "samples": samples or [{"note": "none"}],
        "evaluations": len(outs.items), "distinct_nontrivial": len(texts),
        "statements_checked": stmts, "clang_batches": clang_batches, "clang_bodies": len(bodies), "clang_subroutine_definitions": len(subdefs),
        "instruction_records_checked": recs, "getter_names": len(getters), "layouts": list(layouts), "history_outputs_checked": hist_checked,
        "texts_by_kind": dict(collections.Counter(it["kind"] for it in outs.items)), "compiles": outs.compiled, "rejected": dict(outs.rejected),
    }, hard_inconclusive=None if stmts > 0 and clang_batches > 0 else "nothing checked")


def replay(path):
    import json

    rp = json.load(open(path))
    if rp.get("kind") in ("record",):
        print(rp)
        return 1
    from . import c10

    return c10.replay(path)
