"""C17 - the grammar parses behaviours with C structure, deterministically.

(1) Structure: the tree of the repository's grammar (through the compiler's own Lark object and
    through parse_single) is normalised (DESIGN appendix D) and compared with the tree of an
    independent hand-written precedence-climbing parser (verif/cparse.py) for generated token-level
    strings: all ordered operator pairs, unary x binary x postfix, casts vs parentheses, ?: and
    if/else nesting, statement-expressions, every operand token class, random nesting <= 6, corpus.
(2) Determinism: the same texts parsed in fresh processes under different PYTHONHASHSEED values,
    with a fresh and a reused parser object and after unrelated parses; tree digests must be equal."""
import hashlib
import json
import os
import random
import subprocess
import sys

from .. import common, corpus, gen17, harness, pipeline
from .. import cparse as CP

CHILD = r"""
import sys, json, hashlib, os, io, contextlib
sys.path.insert(0, sys.argv[1]); os.chdir(sys.argv[1])
with contextlib.redirect_stdout(io.StringIO()):
    import rzilcompiler.Helper as H
    H.LOG_LEVEL = -1
    from rzilcompiler.Compiler import Compiler
    from rzilcompiler.ArchEnum import ArchEnum
    from rzilcompiler.Parser import InsnParsingBundle, parse_single
texts = json.load(open(sys.argv[2]))
mode = sys.argv[3]
g = open(os.path.join(sys.argv[1], "Resources/Hexagon/grammar.lark")).read()
# the repository's own parser objects: Compiler.parser (reused) and the per-task parser of parse_single (fresh)
with contextlib.redirect_stdout(io.StringIO()):
    comp = Compiler(ArchEnum.HEXAGON) if mode != "fresh" else None
order = list(range(len(texts)))
if mode == "reversed": order.reverse()
res = {}
for i in order:
    try:
        if mode == "fresh" and i >= int(sys.argv[4]):
            res[i] = "SKIP"; continue
        if mode == "fresh":
            r = parse_single(InsnParsingBundle(g, "x", [texts[i]]))["x"]
            if r.exception: raise RuntimeError(r.exception.name)
            t = r.asts[0]
        else:
            t = comp.parser.parse(texts[i])
        d = hashlib.sha256(t.pretty().encode()).hexdigest()[:16]
    except Exception as e: d = "EXC:" + (str(e) if isinstance(e, RuntimeError) else type(e).__name__)
    res[i] = d
print(json.dumps([res[i] for i in range(len(texts))]))
"""


def first_diff(a, b, path=""):
    if type(a) != type(b) or not isinstance(a, tuple):
        return (path, a, b) if a != b else None
    if len(a) != len(b):
        return (path, "len", [x[0] if isinstance(x, tuple) else x for x in a], [x[0] if isinstance(x, tuple) else x for x in b])
    for i, (x, y) in enumerate(zip(a, b)):
        d = first_diff(x, y, path + f".{i}")
        if d:
            return d
    return None


def hash_of(t):
    return int(hashlib.sha256(t.encode()).hexdigest()[:8], 16)


def depth_of(t):
    if not isinstance(t, tuple):
        return 0
    return 1 + max([depth_of(x) for x in t[1:]] + [0])


def main(tier):
    run = common.Run("C17", "exploration", tier)
    S = pipeline.Session()
    rng = random.Random(run.seed)
    texts = []
    texts += [("pair", t) for t in gen17.pair_matrix()]
    texts += [("unary", t) for t in gen17.unary_matrix()]
    texts += [("token", t) for t in gen17.token_class_probes()]
    g = gen17.G17(rng)
    nexpr, nstmt = (200, 70) if tier == "quick" else (6000, 2000)
    g.max_depth = 5 if tier == "quick" else 6
    for _ in range(nexpr):
        texts.append(("expr", f"{{ x {rng.choice(gen17.ASSIGN)} {g.expr(1)}; }}"))
    for _ in range(nstmt):
        texts.append(("stmt", "{ " + " ".join(g.stmt(rng.choice([1, 2, 3])) for _ in range(rng.randint(1, 3))) + " }"))
    beh = S.behaviors
    names = corpus.stratified_sample(beh, 45 if tier == "quick" else 400, run.seed)
    for nm in names:
        for b in beh[nm]:
            if len(b) < (400 if tier == "quick" else 900):
                texts.append(("corpus", b))
    findings = run.findings
    wit = []
    for mech, e in findings.items():
        for w in (e.get("witness") or {}).get("texts", []):
            wit.append((mech, w))

    parser = S.comps["rs"].parser
    from rzilcompiler.Parser import InsnParsingBundle, parse_single

    gtext = corpus.grammar_text()

    def work(item):
        kind, t = item
        out = {"lark": None, "e6": None}
        try:
            lt = parser.parse(t)
            out["lark"] = CP.norm(lt)
            out["pretty"] = hashlib.sha256(lt.pretty().encode()).hexdigest()[:16]
        except Exception as e:
            out["lark_exc"] = type(e).__name__
        if (kind in ("pair", "token") and hash_of(t) % 8 == 0) or kind.startswith("kf:"):
            # the per-task entry point must give the same tree as the compiler's parser object
            r = parse_single(InsnParsingBundle(gtext, "x", [t]))["x"]
            if r.exception is None:
                out["single_same"] = (hashlib.sha256(r.asts[0].pretty().encode()).hexdigest()[:16] == out.get("pretty"))
            else:
                out["single_same"] = out["lark"] is None
        try:
            out["e6"] = CP.parse(t)
        except CP.ParseError as e:
            out["e6_exc"] = str(e)[:80]
        return out

    allitems = texts + [("kf:" + m, w) for m, w in wit]
    res = harness.pmap(work, allitems)
    stat = {"equal": 0, "both_reject": 0}
    nontrivial = set()
    samples = []
    seen_kf = set()
    for (kind, t), r in zip(allitems, res):
        if not isinstance(r, dict):
            run.note_inconclusive(f"worker failed on {t[:60]}")
            continue
        if r.get("single_same") is False:
            run.violation(f"parse_single and the compiler's parser object give different trees for `{t[:100]}`", {"kind": "entry_points", "text": t}, key="single")
        lark_ok, e6_ok = r["lark"] is not None, r["e6"] is not None
        status = None
        if lark_ok and e6_ok:
            if r["lark"] == r["e6"]:
                status = "equal"
            else:
                status = "differ"
        elif not lark_ok and not e6_ok:
            status = "both_reject"
        elif lark_ok:
            status = "only_reference_rejects"
        else:
            status = "only_grammar_rejects"
        if kind.startswith("kf:"):
            mech = kind[3:]
            if status in ("differ", "only_grammar_rejects", "only_reference_rejects"):
                if mech not in seen_kf:
                    seen_kf.add(mech)
                run.known(mech, {"text": t, "status": status})
            else:
                print(f"INFO property=C17 listed finding {mech} did not reproduce on witness `{t}`")
            continue
        if status == "equal":
            stat["equal"] += 1
            if depth_of(r["e6"]) >= 4:
                nontrivial.add(r["e6"])
            if len(samples) < 3 and kind in ("expr", "stmt") and depth_of(r["e6"]) >= 6:
                samples.append({"text": t, "normal_form": str(r["e6"])[:300]})
        elif status == "both_reject":
            stat["both_reject"] += 1
        elif status == "differ" and CP.has_zero_arg_call(r["e6"]) and CP.parse(t, zero_arg_id=True) == r["lark"] and "zero_arg_call_is_identifier" in run.findings:
            # the only difference is the listed divergence f() -> f
            run.known("zero_arg_call_is_identifier", {"text": t})
        elif status == "differ":
            d = first_diff(r["lark"], r["e6"])
            run.violation(f"grammar tree differs from C structure for `{t[:140]}`: first difference {str(d)[:200]}",
                          {"kind": "structure", "text": t, "grammar_normal_form": str(r["lark"]), "reference_normal_form": str(r["e6"])}, key=f"differ:{kind}:{str(d[1:])[:40]}")
        elif status == "only_grammar_rejects":
            if kind == "corpus":
                stat["corpus_lexer_reject"] = stat.get("corpus_lexer_reject", 0) + 1  # HVX etc.: rejection is allowed
            else:
                run.violation(f"grammar rejects ({r.get('lark_exc')}) a string of the dialect: `{t[:140]}`", {"kind": "reject", "text": t}, key=f"greject:{kind}:{r.get('lark_exc')}")
        else:
            if kind == "corpus":
                stat["corpus_reference_reject"] = stat.get("corpus_reference_reject", 0) + 1
                run.note_inconclusive(f"reference parser rejects corpus text ({r.get('e6_exc')}): {t[:80]}")
            else:
                run.violation(f"grammar accepts a string the C reference parser rejects ({r.get('e6_exc')}): `{t[:140]}`", {"kind": "accept", "text": t}, key=f"gaccept:{kind}")

    # ---- (2) determinism across processes / hash seeds / parser reuse
    det_texts = [t for k, t in texts if k in ("pair", "unary")][:: (12 if tier == "quick" else 2)] + [t for k, t in texts if k in ("expr", "stmt")][: (20 if tier == "quick" else 400)]
    # texts whose derivation is ambiguous in the grammar (their tree may be the listed wrong one, but it must be the same everywhere)
    det_texts += ["{ if (RsV) if (RtV) RdV = 1; else if (RuV) RdV = 2; else RdV = 3; }", "{ if (a) if (b) x = 1; else x = 2; }", "{ if (a) if (b) if (c) x = 1; else x = 2; else x = 3; }",
                  "{ { x = 1; }; { y = 2; }; ; { z = 3; } }", "{ { a = 1; }; }", "{ if (a) { x = 1; }; else_ = 2; }", "{ for (i = 0; i < 2; i++) if (a) if (b) x = 1; else x = 2; }",
                  "{ x = a ? b : c ? d : e ? f : g; }", "{ if (a) x = 1; else if (b) x = 2; else if (c) x = 3; else x = 4; }", "{ x = b-- & c; }", "{ x = f(); }", "{ {}; {}; }"]
    det_texts += [t for k, t in texts if k == "corpus" and len(t) < 300][: (25 if tier == "quick" else 300)]
    # ambiguous and corpus texts first: the 'fresh' child (one new parser per text) only takes a prefix in the quick tier
    det_texts = det_texts[-37:] + det_texts[:-37]
    tmp = os.path.join(common.CACHE_DIR, f"c17-{os.getpid()}.json")
    os.makedirs(common.CACHE_DIR, exist_ok=True)
    json.dump(det_texts, open(tmp, "w"))
    procs = []
    configs = [("0", "reused"), ("1", "reused"), ("2", "reversed"), ("3", "fresh"), ("7", "reused"), ("random", "reversed")]
    for hs, mode in configs:
        env = dict(os.environ, PYTHONHASHSEED=hs)
        procs.append((hs, mode, subprocess.Popen([sys.executable, "-c", CHILD, common.REPO, tmp, mode, "45" if tier == "quick" else "100000"], env=env, stdout=subprocess.PIPE, stderr=subprocess.PIPE, text=True)))
    digests = []
    for hs, mode, p in procs:
        try:
            out, err = p.communicate(timeout=1500)
            digests.append((hs, mode, json.loads(out.strip().split("\n")[-1])))
        except Exception as e:
            p.kill()
            run.note_inconclusive(f"determinism child {hs}/{mode}: {e}")
    os.unlink(tmp)
    det_cases = 0
    if digests:
        base = digests[0][2]
        # in-process digest of the parent (reused parser, after hundreds of unrelated parses)
        for hs, mode, dg in digests[1:]:
            for i, (a, b) in enumerate(zip(base, dg)):
                if "SKIP" in (a, b):
                    continue
                det_cases += 1
                if a != b:
                    run.violation(f"tree of `{det_texts[i][:100]}` differs between processes (hash seed 0/reused vs {hs}/{mode})",
                                  {"kind": "determinism", "text": det_texts[i], "digests": [a, b], "config": [hs, mode]}, key="determinism")
    run.assumptions = ["the reference is this framework's precedence-climbing parser for the C subset (C11 6.5 precedence, nearest-if else binding, cast by type-name lookahead)",
                       "comparison is on the normal form of DESIGN appendix D (parentheses invisible, braces transparent, empty statements in lists dropped)"]
    run.finish({
        "evaluations": len(texts), "distinct_nontrivial": len(nontrivial),
        "rule": "one case = one generated string / corpus behaviour parsed by the grammar and by the independent parser; non-trivial = distinct normal forms of depth >= 4 on which both agree",
        "samples": samples or [{"note": "none"}],
        "agree": stat["equal"], "both_reject": stat["both_reject"], "operator_pairs": len(gen17.pair_matrix()), "token_class_probes": len(gen17.token_class_probes()),
        "corpus_texts": sum(1 for k, _ in texts if k == "corpus"), "corpus_rejected_by_grammar": stat.get("corpus_lexer_reject", 0),
        "determinism_processes": len(digests), "determinism_texts": len(det_texts), "determinism_comparisons": det_cases,
        "hash_seeds": [c[0] for c in configs],
    }, hard_inconclusive=None if stat["equal"] > 0 and len(digests) >= 3 else "too few comparisons / determinism children failed")


def replay(path):
    rp = json.load(open(path))
    S = pipeline.Session()
    t = rp["text"]
    try:
        ln = CP.norm(S.comps["rs"].parser.parse(t))
    except Exception as e:
        ln = f"rejected: {type(e).__name__}"
    try:
        en = CP.parse(t)
    except CP.ParseError as e:
        en = f"rejected: {e}"
    print("grammar  :", ln)
    print("reference:", en)
    return 0 if ln == en else 1
