"""C18 - pooled parsing equals sequential parsing and isolates failures.

History checker over real Parser.parse runs: each run is a child process in which the pool size
(1..16) is patched and the per-task function is wrapped to log (name, pid, start, end) and to inject a
per-task delay so that completion order is a random permutation. Inputs are random subsets/orderings of
corpus behaviours with syntactically broken behaviours injected at random positions (lexer error, parse
error, unexpected end, broken second part of a two-part behaviour). Checked per run against the
sequential in-process parse: key set and order = input, one tree per part equal to the sequential tree,
a broken behaviour has the sequential error's name and no trees, nothing else changes."""
import hashlib
import json
import os
import random
import subprocess
import sys
import tempfile

from .. import common, corpus, harness, pipeline

BROKEN = [("lex", ["{ RdV = RsV $ 1; }"]), ("eof", ["{"]), ("parse", ["{ RdV = ; }"]), ("parse2", ["{ if (RsV { RdV = 1; } }"]),
          ("second_part", ["{ RdV = RsV; }", "{ ( }"]), ("first_part", ["{ RdV = ) ; }", "{ RdV = RtV; }"]), ("empty", [""]), ("both_ok_two", ["{ RdV = RsV; }", "{ PdV = RtV; }"])]


def main(tier):
    run = common.Run("C18", "fault_enumeration", tier)
    S = pipeline.Session()
    beh = S.behaviors
    rng = random.Random(run.seed)
    short = sorted(nm for nm in beh if sum(len(b) for b in beh[nm]) < 200)
    two = sorted(nm for nm in beh if len(beh[nm]) == 2 and sum(len(b) for b in beh[nm]) < 500)
    from rzilcompiler.Parser import InsnParsingBundle, parse_single

    gtext = corpus.grammar_text()
    nruns = 8 if tier == "quick" else 40
    ntasks = 48 if tier == "quick" else 160
    sizes = [1, 2, 3, 5, 8, 13, 16, 4, 7, 11, 6, 9, 10, 12, 14, 15]
    jobs = []
    for k in range(nruns):
        r2 = random.Random(f"{run.seed}:run:{k}")
        names = r2.sample(short, ntasks - 6)
        names += [n for n in r2.sample(two, min(12, len(two))) if n not in names][:6]
        r2.shuffle(names)
        inp = [(nm, beh[nm]) for nm in names]
        nb = r2.randint(2, 6)
        for j in range(nb):
            kind, parts = r2.choice(BROKEN)
            inp.insert(r2.randrange(len(inp) + 1), (f"broken_{kind}_{j}", parts))
        job = {"repo": common.REPO, "seed": f"{run.seed}:{k}", "pool_size": sizes[k % len(sizes)], "max_delay": 0.08 if sizes[k % len(sizes)] > 1 else 0.0, "input": inp}
        job["tuple_names"] = [nm for nm, parts in inp if r2.random() < (0.5 if len(parts) == 2 else 0.1)]
        if k % 2 == 1:
            # a second and third call in the same process: same names, some with another behaviour (valid -> broken, broken -> valid,
            # valid -> another instruction's text, one part -> two parts); a call must not depend on earlier calls
            fol = []
            cur = list(inp)
            for c in range(2):
                nxt = []
                for nm, parts in cur:
                    x = r2.random()
                    if x < 0.12:
                        parts = r2.choice(BROKEN)[1]
                    elif x < 0.24:
                        parts = beh[r2.choice(short)]
                    elif x < 0.30:
                        parts = beh[r2.choice(two)]
                    elif x < 0.36 and nm.startswith("broken_"):
                        parts = beh[r2.choice(short)]
                    nxt.append((nm, list(parts)))
                if c == 1:
                    r2.shuffle(nxt)
                    nxt = nxt[: len(nxt) * 2 // 3]
                fol.append(nxt)
                cur = nxt
            job["followups"] = fol
        jobs.append(job)
    # sequential reference (in-process, one call of the real per-task function per distinct input)
    distinct = {}
    for j in jobs:
        for pairs in [j["input"]] + j.get("followups", []):
            for nm, parts in pairs:
                distinct[(nm, tuple(parts))] = None

    def seq(key):
        nm, parts = key
        r = parse_single(InsnParsingBundle(gtext, nm, list(parts)))[nm]
        return {"exception": r.exception.name if r.exception else None, "digests": [hashlib.sha256(a.pretty().encode()).hexdigest()[:16] for a in r.asts]}

    keys = list(distinct)
    for kx, v in zip(keys, harness.pmap(seq, keys)):
        distinct[kx] = v
    # run the pools (a few at a time; each has its own watchdog)
    tmpd = tempfile.mkdtemp(prefix="verif-c18-")
    procs = []
    results = [None] * len(jobs)
    env = dict(os.environ, PYTHONPATH=common.VERIF_DIR)
    conc = 3 if tier == "quick" else 4
    pending = list(enumerate(jobs))
    running = []
    watchdog = 900

    def start(i, j):
        j = dict(j)
        j["log"] = os.path.join(tmpd, f"run{i}.log")
        j["out"] = os.path.join(tmpd, f"run{i}.json")
        p = subprocess.Popen([sys.executable, "-m", "verif.pool_driver"], stdin=subprocess.PIPE, stdout=subprocess.DEVNULL, stderr=open(os.path.join(tmpd, f"run{i}.err"), "w"), text=True, env=env, cwd=common.VERIF_DIR)
        p.stdin.write(json.dumps(j))
        p.stdin.close()
        return (i, p)

    import time as _t

    while pending or running:
        while pending and len(running) < conc:
            i, j = pending.pop(0)
            running.append(start(i, j) + (_t.time(),))
        for item in list(running):
            i, p, t0 = item
            if p.poll() is not None:
                try:
                    results[i] = json.load(open(os.path.join(tmpd, f"run{i}.json")))
                except Exception:
                    try:
                        results[i] = {"error": open(os.path.join(tmpd, f"run{i}.err")).read()[-600:] or "no result file"}
                    except Exception:
                        results[i] = {"error": "no result"}
                running.remove(item)
            elif _t.time() - t0 > watchdog:
                p.kill()
                results[i] = {"watchdog": True}
                running.remove(item)
        _t.sleep(0.2)
    for f in os.listdir(tmpd):
        os.unlink(os.path.join(tmpd, f))
    os.rmdir(tmpd)
    # ---- the history checker
    tasks = 0
    faults = 0
    orders = set()
    assignments = set()
    ooo_runs = 0
    workers_seen = set()
    samples = []
    calls = []
    for k, (job, res) in enumerate(zip(jobs, results)):
        if res is None or res.get("watchdog") or res.get("error"):
            run.note_inconclusive(f"pool run {k} (size {job['pool_size']}): {'watchdog' if res and res.get('watchdog') else (res or {}).get('error', 'no result')[-200:]}")
            continue
        calls.append((k, 0, job, job["input"], res))
        for c, (pairs, r2) in enumerate(zip(job.get("followups", []), res.get("followups", []))):
            calls.append((k, c + 1, job, pairs, r2))
    later_calls = 0
    changed_entries = 0
    for k, callno, job, pairs_in, res in calls:
        names = [nm for nm, _ in pairs_in]
        rp = {"kind": "pool", "run": k, "call": callno, "pool_size": job["pool_size"], "seed": job["seed"], "input": pairs_in, "earlier_calls": ([job["input"]] + job.get("followups", []))[:callno]}
        if callno:
            later_calls += 1
            prev = dict(([job["input"]] + job.get("followups", []))[callno - 1])
            changed_entries += sum(1 for nm, parts in pairs_in if nm in prev and list(prev[nm]) != list(parts))
        if res["order"] != names:
            missing = [n for n in names if n not in res["entries"]]
            extra = [n for n in res["order"] if n not in names]
            run.violation(f"pool run (size {job['pool_size']}): result keys/order differ from the input: missing {missing[:3]}, extra {extra[:3]}, order equal: {sorted(res['order']) == sorted(names)}", rp, key="keys")
        for nm, parts in pairs_in:
            e = res["entries"].get(nm)
            if e is None:
                continue
            tasks += 1
            ref = distinct[(nm, tuple(parts))]
            if ref["exception"]:
                faults += 1
            if e["name"] != nm or e["behaviors"] != list(parts):
                run.violation(f"entry {nm} carries another instruction's name/behaviours ({e['name']})", dict(rp, entry=nm), key="identity")
            if e["exception"] != ref["exception"]:
                run.violation(f"entry {nm}: pooled parse reports {e['exception']}, sequential parse {ref['exception']}", dict(rp, entry=nm, pooled=e, sequential=ref), key="exception")
            elif ref["exception"] and e["digests"]:
                run.violation(f"entry {nm}: a failed behaviour carries trees", dict(rp, entry=nm), key="trees_on_failure")
            elif not ref["exception"] and e["digests"] != ref["digests"]:
                run.violation(f"entry {nm}: pooled tree differs from the sequential tree (or wrong number of trees: {len(e['digests'])} vs {len(parts)} parts)", dict(rp, entry=nm, pooled=e, sequential=ref), key="tree")
        log = res["log"]
        if len(log) != len(names) or sorted(l[0] for l in log) != sorted(names):
            run.violation(f"pool run (size {job['pool_size']}): {len(log)} task executions logged for {len(names)} inputs (exactly-once violated)", rp, key="exactly_once")
        comp = tuple(l[0] for l in sorted(log, key=lambda l: float(l[3])))
        orders.add((job["pool_size"], hashlib.sha256(" ".join(comp).encode()).hexdigest()[:12]))
        if list(comp) != names:
            ooo_runs += 1
        pids = sorted({l[1] for l in log})
        workers_seen.add(len(pids))
        assignments.add(hashlib.sha256(" ".join(f"{l[0]}:{pids.index(l[1])}" for l in sorted(log)).encode()).hexdigest()[:12])
        if len(samples) < 2:
            samples.append({"pool_size": job["pool_size"], "inputs": len(names), "workers_used": len(pids), "first_completions": list(comp[:6]), "first_inputs": names[:6],
                            "broken": {n: res["entries"][n]["exception"] for n in names if n.startswith("broken_") and n in res["entries"]}})
    run.assumptions = ["trees are compared through the digest of Tree.pretty()", "worker death is out of scope of the property (it hangs multiprocessing.Pool); a watchdog makes such a run inconclusive"]
    run.finish({
        "evaluations": tasks, "distinct_nontrivial": len(orders) if ooo_runs else 0,
        "rule": "one case = one task of one Parser.parse run compared with the sequential parse; distinct non-trivial = distinct (pool size, completion order) pairs, counted when "
                "at least one run completed out of submission order",
        "samples": samples or [{"note": "none"}], "pool_runs": len(jobs), "pool_sizes": sorted({j["pool_size"] for j in jobs}), "tasks": tasks, "broken_behaviours_injected": faults,
        "runs_completed_out_of_order": ooo_runs, "distinct_completion_orders": len(orders), "distinct_task_worker_assignments": len(assignments), "worker_counts_seen": sorted(workers_seen),
        "later_calls_in_one_process": later_calls, "entries_whose_behaviour_changed_between_calls": changed_entries,
    }, hard_inconclusive=None if tasks > 50 and ooo_runs > 0 else "no out-of-order completion observed / too few tasks")


def replay(path):
    rp = json.load(open(path))
    print(json.dumps({k: v for k, v in rp.items() if k != "input"}, indent=1)[:1500])
    return 1
