"""C14 - compilation results do not depend on history or on earlier failures.

Reference: every item (generated program, short corpus instruction) compiled FIRST in a child forked from
a parent that only constructed the compiler. Subject: the same item compiled in a long-lived child after a
recorded history: random permutations, failing inputs of four kinds (lexer error, parse error,
unsupported construct, type error) enumerated at every position of short histories and sprinkled over long
ones, injected failpoints (a rule callback raising on its k-th call inside a chosen step), the entry points
compile_c_stmt / transform_insn / compile_insn / add_sub_routine, and a second Compiler in the same
process. Compared: acceptance, emitted text after consistent renaming of compiler temporaries and removal
of comments, attribute list. A state monitor after every compile event checks that the operand table,
pending-hybrid and immediate lists and the attribute flags are back to their pristine values and that no
shared type object changed its signedness or width."""
import contextlib
import io
import random
import re

from .. import common, corpus, gen, harness, pipeline

FAIL_KINDS = {
    "lex": ["{ RdV = RsV $ 3; }", "{ RdV = `RsV; }"],
    "parse": ["{ RdV = ; }", "{ if (RsV { RdV = 1; } }", "{"],
    "unsupported": ["{ int32_t zz = RsV; RdV = foo(zz); }", "{ int32_t q = RsV; while (q) { q = q - 1; } }", "{ int32_t zz = RsV + 1; RdV = *zz; }"],
    "type": ["{ float f = RsV; RdV = (int32_t) f; }", "{ const int32_t k = RsV; k = 3; RdV = k; }"],
    # the very first leaf raises, after its attribute flag is set and before any operation is registered (holder still empty)
    "early": ["{ if (OsN) { RdV = RsV; } }", "{ OsN; }", "{ OdV = PuN; }", "{ JUMP(OsV); }"],
    # raises late, after every attribute flag and a predicate number were set
    "flags": ["{ if (PuN) { RdV = mem_load_u32(RsV); mem_store_u32(RsV, RtV); P1 = 1; JUMP(RtV); RdV = foo(RsV); } }",
              "{ P2 = RsV; if (RsV) { RdV = mem_load_s8(RtV); } RdV = *RsV; }"],
}
PROBES_AFTER_FAILURE = ["{ RdV = zz; }", "{ RdV = q + k; }"]  # must be rejected on a clean compiler; stale locals would make them compile


class InjectedFault(Exception):
    pass


def normalise(text):
    if text is None:
        return None
    lines = [l for l in text.split("\n") if l.strip() and not l.strip().startswith("//")]
    t = "\n".join(lines)
    order = {}

    def ren(m):
        k = m.group(0)
        if k not in order:
            order[k] = f"h_tmp#{len(order)}"
        return order[k]

    return re.sub(r"h_tmp\w*?\d+", ren, t)


def shared_types(c):
    out = {}
    for n, s in c.sub_routines.items():
        out[f"sub:{n}:ret"] = s.value_type
        for k, p in enumerate(s.ops):
            out[f"sub:{n}:p{k}"] = p.value_type
    for n, m in c.transformer.macros.items():
        out[f"macro:{n}:ret"] = m.return_type
        for k, p in enumerate(m.param_types):
            out[f"macro:{n}:p{k}"] = p
    for n, p in c.transformer.parameters.items():
        out[f"param:{n}"] = p.value_type
    return out


def snapshot(c):
    t = c.transformer
    h = t.il_ops_holder
    ext = t.ext
    return {
        "holder": (len(h.read_ops), len(h.exec_ops), len(h.write_ops), len(h.let_ops), h.op_count, len(h.hybrid_effect_dict)),
        "imm": len(t.imm_set_effect_list),
        "flags": (bool(ext.is_conditional), bool(ext.uses_new), bool(ext.writes_mem), bool(ext.reads_mem), bool(ext.branches), bool(ext.writes_predicate), tuple(ext.preds_written)),
        "types": {k: (v._signed, v._bit_width) for k, v in shared_types(c).items()},
        "groups": {k: str(v.group) for k, v in shared_types(c).items()},
    }


def history_child(job):
    comps, hist, pristine = job
    import rzilcompiler.Transformer.RZILTransformer as RT
    from rzilcompiler.Parser import ParsedInsn

    events = []
    for step in hist:
        c = comps[step["comp"]]
        ev = {"kind": step["kind"]}
        restore = None
        if step.get("failpoint"):
            rule, k = step["failpoint"]
            orig = getattr(RT.RZILTransformer, rule)
            cnt = [0]

            def wrapper(self, items, _orig=orig, _cnt=cnt, _k=k):
                _cnt[0] += 1
                if _cnt[0] == _k:
                    raise InjectedFault(f"failpoint {rule}#{_k}")
                return _orig(self, items)

            setattr(RT.RZILTransformer, rule, wrapper)
            restore = (rule, orig, cnt)
        try:
            with contextlib.redirect_stdout(io.StringIO()):
                e = step["entry"]
                if e == "stmt":
                    out = c.compile_c_stmt(step["text"])
                    ev["text"] = normalise(out)
                    ev["meta"] = harness.TRACE.meta
                elif e in ("transform_insn", "compile_insn"):
                    asts = [c.parser.parse(b) for b in step["parts"]]
                    pi = ParsedInsn(step["name"], asts, step["parts"])
                    if e == "compile_insn":
                        c.parsed_insns[step["name"]] = pi
                        insn = c.compile_insn(step["name"])
                    else:
                        insn = c.transform_insn(step["name"], pi)
                    ev["text"] = [normalise(z) for z in insn.rzil]
                    ev["meta"] = [list(m) for m in insn.meta]
                elif e == "addsub":
                    c.add_sub_routine(*step["sub"])
                    ev["text"] = "registered"
        except BaseException as ex:  # noqa
            ev["exc"] = harness.exc_info(ex)["inner"]
        finally:
            if restore:
                setattr(RT.RZILTransformer, restore[0], restore[1])
                ev["failpoint_fired"] = restore[2][0] >= step["failpoint"][1]
        snap = snapshot(c)
        drift = {k: (pristine[step["comp"]][k], snap[k]) for k in ("holder", "imm", "flags") if snap[k] != pristine[step["comp"]][k]}
        tdrift = {k: (pristine[step["comp"]]["types"].get(k), v) for k, v in snap["types"].items() if k in pristine[step["comp"]]["types"] and pristine[step["comp"]]["types"][k] != v}
        if tdrift:
            drift["types"] = tdrift
        ev["drift"] = drift
        ev["group_drift"] = sum(1 for k, v in snap["groups"].items() if pristine[step["comp"]]["groups"].get(k, v) != v)
        events.append(ev)
    return events


def main(tier):
    run = common.Run("C14", "fault_enumeration", tier)
    S = pipeline.Session()
    rng = random.Random(run.seed)
    beh = S.behaviors
    # ---- items
    g = gen.G(random.Random(run.seed + 3), avoid=("const_cond",))
    items = []
    for i in range(60 if tier == "quick" else 600):
        text, _ = g.program(depth=rng.choice([1, 2, 3]), nstmts=(1, 4))
        items.append({"id": f"gen{i}", "entry": "stmt", "text": text})
    for t in ["{ ReV = clo32(RsV) + clo32(RtV); }", "{ int32_t a = RsV; ReV = a++ + 1; a--; RddV = a; }", "{ P0 = RsV; P1 = RtV; if (PuN) { JUMP(RsV); } }",
              "{ ReV = (RsV > 0) ? ({ set_usr_field(bundle, HEX_REG_FIELD_USR_OVF, 1); 1; }) : 2; }", "{ RdV = siV + uiV; }", "{ EA = RsV + siV; RdV = mem_load_s16(EA); mem_store_u8(EA, RtV); }"]:
        items.append({"id": f"fix{len(items)}", "entry": "stmt", "text": t})
    for t in ["{ RdV = get_npc(pkt); }", "{ HEX_REG_ALIAS_LR = get_npc(pkt); JUMP(riV); }", "{ RdV = get_corresponding_CS(pkt, MuV); }", "{ set_usr_field(bundle, HEX_REG_FIELD_USR_OVF, 1); RdV = get_usr_field(bundle, HEX_REG_FIELD_USR_OVF); }",
              "{ if (PuV & 1) { STORE_SLOT_CANCELLED(pkt, slot); } }", "{ RdV = fcirc_add(bundle, RxV, siV, MuV, get_corresponding_CS(pkt, MuV)); }"]:
        items.append({"id": f"par{len(items)}", "entry": "stmt", "text": t})
    # writer / reader / read-modify-write of every register alias, explicit registers and read-write operands (objects that could be cached per name)
    for a in ["LR", "SP", "FP", "SA0", "LC0", "SA1", "LC1", "USR", "GP", "UGP", "M0", "CS0", "P3_0", "UPCYCLE"]:
        items.append({"id": f"par{len(items)}", "entry": "stmt", "text": f"{{ HEX_REG_ALIAS_{a} = RsV; }}"})
        items.append({"id": f"par{len(items)}", "entry": "stmt", "text": f"{{ RdV = HEX_REG_ALIAS_{a} + 1; }}"})
    # values whose TYPE OBJECT may be shared between compilations: boolean valued statement-expressions / calls, then constant conditions
    for t in ["{ ReV = ({ RdV = RsV; RsV > 0; }) ? 1 : 2; }", "{ RdV = ((16) != 0) ? RsV : RtV; }", "{ RdV = (1 == 1) ? sextract64(RsV, 0, 16) : 0LL; }", "{ int32_t a = 0; if (({ a = RsV; a > RtV; })) { ReV = a; } }",
              "{ RdV = (RsV > RtV) + (RsV && RtV) + !RsV; }", "{ RdV = (0 ? RsV : RtV) + sizeof(RsV > 1); }"]:
        items.append({"id": f"par{len(items)}", "entry": "stmt", "text": t})
    for t in ["{ HEX_REG_ALIAS_LC0 = HEX_REG_ALIAS_LC0 - 1; }", "{ RdV = HEX_REG_ALIAS_LC0_NEW; }", "{ R31 = RsV; }", "{ RdV = R31; }", "{ P0 = RsV; }", "{ RdV = P0; }", "{ RdV = P0_NEW; }",
              "{ RxV = RsV; }", "{ RdV = RxV; }", "{ RxV += RsV; }", "{ RyyV = RssV; }", "{ RddV = RyyV; }", "{ PxV = PxV & PsV; }", "{ RdV = PxV; }", "{ C3:2 = RssV; }" if False else "{ RddV = C3:2; }"]:
        items.append({"id": f"par{len(items)}", "entry": "stmt", "text": t})
    names = [nm for nm in corpus.stratified_sample(beh, 400, run.seed) if sum(len(b) for b in beh[nm]) < 240]
    rng.shuffle(names)
    for nm in names[: (30 if tier == "quick" else 250)]:
        items.append({"id": f"insn:{nm}", "entry": rng.choice(["transform_insn", "compile_insn"]), "name": nm, "parts": beh[nm]})
    probes = [{"id": f"probe{k}", "entry": "stmt", "text": t} for k, t in enumerate(PROBES_AFTER_FAILURE)]
    # statements that call a routine registered through add_sub_routine AFTER construction (the registered resources are part of the input)
    subitems = []
    for k, (ret, params, body, call) in enumerate([
            ("int32_t", ["int32_t p"], "{ return p + 1; }", "{ RdV = NAME(RsV) + 1; }"),
            ("uint32_t", ["uint32_t p", "int32_t q"], "{ uint32_t r = p; r++; return r + clz32(q); }", "{ RdV = NAME(RsV, RtV) + NAME(RtV, siV); }"),
            ("int64_t", ["int64_t p"], "{ if (p > 3) { return p - 1; } return p; }", "{ RddV = NAME(RssV); if (RddV > 4) { ReV = (int32_t) NAME(RttV); } }"),
            ("uint8_t", ["int32_t p"], "{ return (uint8_t) (p >> 3); }", "{ PdV = NAME(RsV); RxV += NAME(RxV); }"),
            ("int32_t", ["int32_t p", "int32_t q"], "{ int32_t i; int32_t a = 0; for (i = 0; i < 3; i++) { a += p ^ q; } return a; }", "{ int32_t z = NAME(RsV, 3); RdV = z + NAME(z, RtV); }"),
            ("void", ["int32_t p"], "{ set_usr_field(bundle, HEX_REG_FIELD_USR_OVF, p & 1); }", "{ NAME(RsV); RdV = RsV; }")]):
        name = f"hist_sub_{k}"
        subitems.append({"id": f"sub{k}", "entry": "stmt", "text": call.replace("NAME", name), "sub": (name, ret, params, body)})
    allitems = items + probes + subitems
    # ---- reference: compiled first in a pristine fork
    comps = S.comps

    def ref_case(it):
        c = comps["rs"]
        harness.reset_trace()
        out = {}
        try:
            with contextlib.redirect_stdout(io.StringIO()):
                if it.get("sub"):
                    c.add_sub_routine(*it["sub"])
                if it["entry"] == "stmt":
                    out["text"] = normalise(c.compile_c_stmt(it["text"]))
                    out["meta"] = harness.TRACE.meta
                else:
                    from rzilcompiler.Parser import ParsedInsn

                    asts = [c.parser.parse(b) for b in it["parts"]]
                    insn = c.transform_insn(it["name"], ParsedInsn(it["name"], asts, it["parts"]))
                    out["text"] = [normalise(z) for z in insn.rzil]
                    out["meta"] = [list(m) for m in insn.meta]
        except BaseException as ex:  # noqa
            out["exc"] = harness.exc_info(ex)["inner"]
        return out

    refs = harness.run_forked(ref_case, allitems)
    ref = {it["id"]: r for it, r in zip(allitems, refs)}
    usable = [it for it in items if "harness_error" not in ref[it["id"]] and not ref[it["id"]].get("timeout")]
    # ---- histories
    compB = harness.new_compiler("rs")
    comps2 = {"A": S.comps["rs"], "B": compB}
    pristine = {k: snapshot(c) for k, c in comps2.items()}
    failpoint_rules = ["additive_expr", "assignment_expr", "cast_expr", "number", "reg", "selection_stmt", "block_item", "compare_op", "identifier", "conditional_expr"]
    jobs = []

    def step_of(it, comp="A", failpoint=None):
        s = {"kind": "item", "id": it["id"], "comp": comp, "entry": it["entry"]}
        for k in ("text", "name", "parts"):
            if k in it:
                s[k] = it[k]
        if failpoint:
            s["failpoint"] = failpoint
            s["kind"] = "failpoint"
        return s

    def fail_step(kind, comp="A", r=rng):
        text = r.choice(FAIL_KINDS[kind])
        if kind not in ("lex", "parse") and r.random() < 0.4:  # the failure happens inside transform_insn / compile_insn, not compile_c_stmt
            return {"kind": "fail:" + kind, "id": None, "comp": comp, "entry": r.choice(["transform_insn", "compile_insn"]), "name": "FAILING_INSN", "parts": [text], "text": text}
        return {"kind": "fail:" + kind, "id": None, "comp": comp, "entry": "stmt", "text": text}

    # (1) fault enumeration: a failing input of every kind at every position of short histories
    nshort = 4 if tier == "quick" else 12
    for h in range(nshort):
        r2 = random.Random(f"{run.seed}:short:{h}")
        base = r2.sample(usable, 4)
        for kind in FAIL_KINDS:
            for pos in range(len(base) + 1):
                hist = [step_of(it) for it in base[:pos]] + [fail_step(kind, r=r2)] + [step_of(probes[0]), step_of(probes[1])] + [step_of(it) for it in base[pos:]]
                jobs.append(hist)
    # (2) long random histories with failures, failpoints, two compilers, both entry points, sub-routine registration
    nlong = 12 if tier == "quick" else 80
    for h in range(nlong):
        r2 = random.Random(f"{run.seed}:long:{h}")
        pool = r2.sample(usable, min(len(usable), 36))
        if h % 2:
            pool = list(reversed(pool))
        hist = []
        pending = []
        two = h % 3 == 0
        # items that use the long-lived parameter operands (pkt, hi, bundle) occur twice in every long history
        pars = [it for it in usable if it["id"].startswith("par")]
        pool = pool + r2.sample(pars, min(len(pars), 18)) * 2
        r2.shuffle(pool)
        for it in pool:
            comp = r2.choice(["A", "B"]) if two else "A"
            x = r2.random()
            if x < 0.18:
                hist.append(fail_step(r2.choice(list(FAIL_KINDS)), comp, r2))
            elif x < 0.30:
                other = r2.choice(usable)
                hist.append(step_of(other, comp, failpoint=(r2.choice(failpoint_rules), r2.randint(1, 3))))
            elif x < 0.38:
                si = r2.choice(subitems)
                hist.append({"kind": "addsub", "id": None, "comp": comp, "entry": "addsub", "sub": si["sub"]})
                pending.append((si, comp))
            hist.append(step_of(it, comp))
            if pending and r2.random() < 0.6:
                si, cm = pending.pop(0)
                hist.append(step_of(si, cm))
        hist += [step_of(si, cm) for si, cm in pending]
        jobs.append(hist)
    # (3) registration after construction on the first and on a later Compiler instance of the process, used at once and after other work
    for si in subitems:
        for comp in ("A", "B"):
            r2 = random.Random(f"{run.seed}:inst:{si['id']}:{comp}")
            mid = [step_of(it, comp) for it in r2.sample(usable, 2)]
            jobs.append([{"kind": "addsub", "id": None, "comp": comp, "entry": "addsub", "sub": si["sub"]}, step_of(si, comp)] + mid + [step_of(si, comp)])
    results = harness.pmap(history_child, [(comps2, hist, pristine) for hist in jobs])
    compared = 0
    hist_with_fault = 0
    fired = 0
    faults = 0
    samples = []
    group_drift = 0
    sub_calls = 0
    for hist, events in zip(jobs, results):
        if not isinstance(events, list):
            run.note_inconclusive(f"history child failed: {str(events)[:200]}")
            continue
        had_fault = False
        trail = []
        for step, ev in zip(hist, events):
            desc = step.get("text") or step.get("name") or step["kind"]
            group_drift = max(group_drift, ev.get("group_drift", 0))
            if ev["drift"]:
                run.violation(f"compiler state not pristine after a compile event ({step['kind']} via {step['entry']}: `{str(desc)[:80]}`): {ev['drift']}",
                              {"kind": "state", "step": step, "drift": ev["drift"], "history": trail[-8:]}, key="state:" + ",".join(sorted(ev["drift"])))
            if step["kind"].startswith("fail:") or step["kind"] == "addsub":
                if step["kind"].startswith("fail:"):
                    faults += 1
                    had_fault = True
                    if "exc" not in ev:
                        run.violation(f"failing input `{desc}` was accepted in a history", {"kind": "fail_accepted", "step": step, "history": trail[-8:]}, key="fail_accepted")
                trail.append((step["kind"], str(desc)[:80]))
                continue
            if step["kind"] == "failpoint":
                if ev.get("failpoint_fired"):
                    fired += 1
                    had_fault = True
                trail.append(("failpoint", step["failpoint"], str(desc)[:60]))
                continue
            r = ref[step["id"]]
            compared += 1
            if step["id"].startswith("sub"):
                sub_calls += 1
            if ("exc" in r) != ("exc" in ev):
                run.violation(f"`{str(desc)[:100]}` is {'rejected' if 'exc' in r else 'accepted'} when compiled first but {'rejected (' + ev.get('exc', '') + ')' if 'exc' in ev else 'accepted'} after this history",
                              {"kind": "acceptance", "step": step, "first": r, "after": {k: ev.get(k) for k in ("exc", "text")}, "history": trail[-8:]}, key="acceptance:" + str(step["id"])[:5])
            elif "exc" not in r:
                if r["text"] != ev["text"]:
                    run.violation(f"emitted code of `{str(desc)[:100]}` differs from the code emitted when compiled first (after renaming temporaries, without comments)",
                                  {"kind": "text", "step": step, "first": r["text"], "after": ev["text"], "history": trail[-8:]}, key="text")
                if r["meta"] != ev["meta"]:
                    run.violation(f"attributes of `{str(desc)[:100]}` differ: first {r['meta']}, after history {ev['meta']}",
                                  {"kind": "meta", "step": step, "first": r["meta"], "after": ev["meta"], "history": trail[-8:]}, key="meta")
            trail.append(("item", str(desc)[:80]))
        if had_fault:
            hist_with_fault += 1
            if len(samples) < 2:
                samples.append({"history": [(s["kind"], (s.get("text") or s.get("name") or "")[:60], s.get("failpoint")) for s in hist][:10]})
    run.assumptions = ["temporaries h_tmpN are renamed in order of first appearance; comment lines are ignored (the property allows both)",
                       "drift of the VTGroup flags of shared type objects is counted as information only (max per event: see group_flag_drift)"]
    run.finish({
        "evaluations": compared, "distinct_nontrivial": hist_with_fault,
        "rule": "one case = (item, recorded history) compared with the same item compiled first in a pristine fork; distinct non-trivial = distinct "
                "histories that contain at least one failing compile (natural failure or fired failpoint) before a compared item",
        "samples": samples or [{"note": "none"}], "histories": len(jobs), "short_histories_fault_at_every_position": nshort * len(FAIL_KINDS) * 5,
        "failing_inputs": faults, "failpoints_fired": fired, "fault_kinds": sorted(FAIL_KINDS), "entry_points": ["compile_c_stmt", "transform_insn", "compile_insn", "add_sub_routine"],
        "items": len(usable), "items_rejected_when_first": sum(1 for it in usable if "exc" in ref[it["id"]]), "two_compiler_histories": sum(1 for h in range(nlong) if h % 3 == 0) + len(subitems),
        "calls_of_routines_registered_after_construction_compared": sub_calls,
        "group_flag_drift": group_drift,
    }, hard_inconclusive=None if compared > 20 and faults > 5 else "too few comparisons")


def replay(path):
    import json

    print(json.dumps(json.load(open(path)), indent=1)[:4000])
    return 1
