"""C20 - macro resolution equals standard C preprocessing under the patched macro set.

(1) bundled sources: `gcc -E -P` of macros_patched.h + shortcode.h, an independent brace-matching
    do-while(0) stripper, token comparison per instruction with the bundled resolved file, name
    bijection, no surviving invocation of a defined function-like macro;
(2) contract on replace_do_while_0 against the independent stripper on generated bodies (nested and
    sequential wrappers, real `do ... while (x)` loops, look-alike identifiers);
(3) contract on patch_macros(cleanup_macros()): every patch appears exactly once and replaces all
    original definitions of its name, user-only patches are added, un-patched originals keep the
    definition gcc sees for them;
(4) the real pipeline (run_preprocess_steps) in a scratch git clone outside /repo and /verif: on the
    bundled sources it must reproduce the bundled files; on generated macro / patch / shortcode sets its
    output must equal gcc -E under the independently merged macro set."""
import os
import random
import re
import shutil
import subprocess
import sys
import tempfile

from .. import common, harness

PPDIR = "Resources/Hexagon/Preprocessor"


def toks(s):
    s = re.sub(r"/\*.*?\*/", " ", s, flags=re.S)
    s = re.sub(r"//[^\n]*", " ", s)
    return re.findall(r'"(?:[^"\\]|\\.)*"|\w+|[^\w\s]', s)


def strip_do_while0(text):
    """independent: token level, brace matching; only `do { ... } while ( 0 )` is unwrapped"""
    t = toks(text)
    changed = True
    while changed:
        changed = False
        i = 0
        while i < len(t):
            if t[i] == "do" and i + 1 < len(t) and t[i + 1] == "{":
                d = 0
                j = i + 1
                while j < len(t):
                    if t[j] == "{":
                        d += 1
                    elif t[j] == "}":
                        d -= 1
                        if d == 0:
                            break
                    j += 1
                if j < len(t) and t[j + 1:j + 5] == ["while", "(", "0", ")"]:
                    t = t[:i] + t[i + 2:j] + t[j + 5:]
                    changed = True
                    continue
            i += 1
    return t


def gcc_expand(macro_text, shortcode_text, workdir):
    src = os.path.join(workdir, "gcc_in.h")
    with open(src, "w") as f:
        f.write(macro_text + "\n" + shortcode_text)
    r = subprocess.run(["gcc", "-E", "-P", "-undef", "-nostdinc", "-x", "c", src], capture_output=True, text=True)
    out = {}
    order = []
    for line in r.stdout.split("\n"):
        m = re.match(r"insn\((\w+), (.*)\)\s*$", line)
        if m:
            out[m.group(1)] = m.group(2)
            order.append(m.group(1))
    return out, order, r.stderr


def read_resolved(path):
    out, order = {}, []
    for line in open(path):
        if line.startswith("#") or not line.strip():
            continue
        m = re.match(r"insn\((\w+), (.*)\)\s*$", line)
        if m:
            out[m.group(1)] = m.group(2)
            order.append(m.group(1))
        else:
            out.setdefault("<unreadable>", line)
    return out, order


def macro_names(text):
    fn, obj = set(), set()
    for m in re.finditer(r"^#define\s+(\w+)(\()?", text, re.M):
        (fn if m.group(2) else obj).add(m.group(1))
    return fn, obj


def compare_resolved(run, got, got_order, exp, exp_order, label, macro_text, allow=lambda n: False):
    """got: name->body from the tool; exp: name->body from gcc -E. Returns number of instructions compared."""
    n = 0
    if set(got) != set(exp):
        run.violation(f"[{label}] instruction names differ: only in tool output {sorted(set(got) - set(exp))[:4]}, only in gcc output {sorted(set(exp) - set(got))[:4]}",
                      {"kind": "names", "label": label}, key=f"{label}:names")
    if [x for x in got_order if x in exp] != [x for x in exp_order if x in got]:
        run.violation(f"[{label}] instruction order differs from the source order", {"kind": "order", "label": label}, key=f"{label}:order")
    fn, obj = macro_names(macro_text)
    for name in got:
        if name not in exp:
            continue
        n += 1
        a = toks(got[name])
        b = strip_do_while0(exp[name])
        if a != b:
            k = next((i for i, (x, y) in enumerate(zip(a, b)) if x != y), min(len(a), len(b)))
            run.violation(f"[{label}] resolved behaviour of {name} differs from standard preprocessing at token {k}: tool `{' '.join(a[max(0, k - 4):k + 6])}` vs gcc `{' '.join(b[max(0, k - 4):k + 6])}`",
                          {"kind": "tokens", "label": label, "name": name, "tool": got[name], "gcc": exp[name]}, key=f"{label}:tokens")
        for i, tk in enumerate(a[:-1]):
            if tk in fn and a[i + 1] == "(" and not allow(tk):
                run.violation(f"[{label}] invocation of the defined macro {tk} survives in {name}", {"kind": "survivor", "label": label, "name": name, "macro": tk}, key=f"{label}:survivor:{tk}")
                break
    return n


# --------------------------------------------------------------------------- generated inputs
def gen_dowhile_body(rng, depth=0):
    parts = []
    for _ in range(rng.randint(1, 4)):
        c = rng.random()
        if c < 0.35:
            parts.append(f"{rng.choice(['x', 'RdV', 'undo', 'dodo', 'redo', 'do_it', 'todo'])} = {rng.choice(['1', 'RsV + 2', 'f(a, b)', 'doit(3)'])};")
        elif c < 0.6 and depth < 3:
            parts.append("do { " + gen_dowhile_body(rng, depth + 1) + " } while (0)" + rng.choice([";", ";", ""]))
        elif c < 0.7 and depth < 3:
            parts.append("do { " + gen_dowhile_body(rng, depth + 1) + " } while (" + rng.choice(["x", "i < 3", "00", "0 + 1"]) + ");")
        elif c < 0.8 and depth < 3:
            parts.append("if (c) { " + gen_dowhile_body(rng, depth + 1) + " } else { y = 0; }")
        elif c < 0.9:
            parts.append("while (x) { z = 1; }")
        else:
            parts.append("for (i = 0; i < 2; i++) { " + gen_dowhile_body(rng, depth + 1) + " }" if depth < 3 else "w = 2;")
    return " ".join(parts)


def gen_sources(rng):
    """-> files (macros.inc, macros.h, macros_mmvec.h, patches_macros.h, shortcode.h) and the independently merged effective macro text"""
    names = [f"fM{k}" for k in range(rng.randint(6, 14))]
    orig = {}  # name -> list of (params, body)
    files = {"macros.inc": [], "macros.h": [], "macros_mmvec.h": []}
    bodies = ["(A + 1)", "do { x = A; } while (0)", "fM0(A) * 2", "{ A; }", "mem_load_s16(A)", "((A) << 2)", "do { do { y = A; } while (0); z = 1; } while (0)", "A ## _suffix", "JUMP(A)"]
    placed = {"macros.inc": [], "macros.h": []}
    for nm in names:
        for dup in range(rng.choice([1, 1, 1, 2])):
            body = rng.choice(bodies)
            if nm == "fM0":
                body = "(A + 1)"
            fname = rng.choice(["macros.inc", "macros.h"])
            line = f"#define {nm}(A) {body}"
            if rng.random() < 0.3:
                cut = line.rfind(" ", 0, len(line) - 2)
                line = line[:cut] + " \\\n    " + line[cut + 1:]
            files[fname].append(line)
            placed[fname].append((nm, body))
    # the files are read in the order macros.inc, macros.h, macros_mmvec.h: a later definition replaces an earlier one
    for fname in ("macros.inc", "macros.h"):
        for nm, body in placed[fname]:
            orig.setdefault(nm, []).append(body)
    # block comments inside continued definitions, a continuation line that starts with an operator
    files["macros.h"].append("#define fCMT1(A) do { \\\n    /* note */ cmt = A; \\\n    cmt2 = A + 1; \\\n} while (0)")
    files["macros.h"].append("#define fCMT2(A) (A \\\n    + 2 \\\n    /* trailing note */ \\\n    )")
    files["macros.inc"].append("#define fCMT3(A) ((A) \\\n    - 1)")
    files["macros.inc"].append("#define fCMT4(A) ((A) \\\n    * 3)")
    extra_eff = ["#define fCMT4(A) ((A) * 3)", "#define fCMT1(A) do { cmt = A; cmt2 = A + 1; } while (0)", "#define fCMT2(A) (A + 2 )", "#define fCMT3(A) ((A) - 1)"]
    names_extra = ["fCMT1", "fCMT2", "fCMT3", "fCMT4"]
    # guarded block and comments
    files["macros.h"].insert(0, "/* a comment */\n#ifndef HEADER_H\n#define HEADER_H\n#include \"other.h\"")
    files["macros.h"].append("#ifdef QEMU_GENERATE\n#define fGEN(A) generate_only(A)\n#else\n#define fGEN(A) helper_only(A)\n#endif")
    files["macros.h"].append("#ifndef QEMU_GENERATE\n#define fNOGEN(A) ((A) * 2)\n#endif")
    files["macros.inc"].append("#ifndef QEMU_GENERATE\n#define fNOGEN2(A) ((A) + 40)\n#endif")
    files["macros.h"].append("// trailing comment\n#endif")
    files["macros_mmvec.h"].append("#ifdef QEMU_GENERATE\n#define fVEC(A) vec_generate(A)\n#endif")
    files["macros.inc"].append("#define OBJ_CONST 42")
    # patches: some replace, some are user-only
    patches = {"DEF_SHORTCODE": ("(TAG, SHORTCODE)", "insn(TAG, SHORTCODE)")}
    for nm in rng.sample(names, rng.randint(1, 4)):
        if nm != "fM0":
            patches[nm] = ("(A)", rng.choice(["patched(A)", "do { p = A; } while (0)", "(A - 1)"]))
    patches["fUSERONLY"] = ("(A)", "user_only(A)")
    ptxt = ["// patches"]
    for nm, (par, body) in patches.items():
        line = f"#define {nm}{par} {body}"
        if rng.random() < 0.3 and " " in body:
            line = f"#define {nm}{par} \\\n   {body}"
        ptxt.append(line)
    # shortcode
    sc = ["#ifndef DEF_SHORTCODE", "#define DEF_SHORTCODE(TAG,SHORTCODE)    /* Nothing */", "#endif"]
    insns = []
    for k in range(rng.randint(8, 20)):
        uses = " ".join(f"{rng.choice(names + names_extra + ['fGEN', 'fVEC', 'fUSERONLY', 'fNOGEN', 'fNOGEN2'])}({rng.choice(['RsV', 'RtV + 1', 'uiV'])});" for _ in range(rng.randint(1, 3)))
        sc.append(f"DEF_SHORTCODE(G{k}_op, {{ {uses} RdV = OBJ_CONST; }})")
        insns.append(f"G{k}_op")
    out_files = {k: "\n".join(v) + "\n" for k, v in files.items()}
    out_files["patches_macros.h"] = "\n".join(ptxt) + "\n"
    out_files["shortcode.h"] = "\n".join(sc) + "\n"
    # independent merge (the property's dictionary semantics): patched names -> patch, others -> their (last) original definition
    eff = []
    for nm, (par, body) in patches.items():
        eff.append(f"#define {nm}{par} {body}")
    for nm in names:
        if nm not in patches:
            eff.append(f"#define {nm}(A) {orig[nm][-1]}")
    eff.append("#define OBJ_CONST 42")
    eff.extend(extra_eff)
    eff.append("#define fGEN(A) helper_only(A)")
    eff.append("#define fVEC(A) vec_generate(A)")
    eff.append("#define fNOGEN(A) ((A) * 2)")
    eff.append("#define fNOGEN2(A) ((A) + 40)")
    return out_files, "\n".join(eff) + "\n", insns, set(patches), orig


PIPE = r"""
import sys, os, io, contextlib
os.chdir(sys.argv[1]); sys.path.insert(0, sys.argv[1])
with contextlib.redirect_stdout(io.StringIO()):
    import rzilcompiler.Helper as H
    H.LOG_LEVEL = -1
    from rzilcompiler.Preprocessor.Hexagon.PreprocessorHexagon import PreprocessorHexagon
    from rzilcompiler.Configuration import Conf, InputFile
    pp = PreprocessorHexagon(Conf.get_path(InputFile.HEXAGON_PP_SHORTCODE_H))
    pp.run_preprocess_steps()
print("DONE")
"""


def run_pipeline(clone):
    r = subprocess.run([sys.executable, "-c", PIPE, clone], capture_output=True, text=True, timeout=1200)
    return r.returncode == 0 and "DONE" in r.stdout, (r.stderr or "")[-600:]


def make_clone():
    d = tempfile.mkdtemp(prefix="verif-c20-")
    clone = os.path.join(d, "clone")
    subprocess.run(["git", "clone", "-q", common.REPO, clone], check=True)
    # the clone must contain the working tree under test, not only its HEAD
    for root in ("rzilcompiler", "Resources"):
        src = os.path.join(common.REPO, root)
        for dp, dn, fn in os.walk(src):
            if "__pycache__" in dp:
                continue
            for f in fn:
                sp = os.path.join(dp, f)
                tp = os.path.join(clone, os.path.relpath(sp, common.REPO))
                os.makedirs(os.path.dirname(tp), exist_ok=True)
                shutil.copyfile(sp, tp)
    return d, clone


def main(tier):
    run = common.Run("C20", "exploration", tier)
    harness.setup()
    from rzilcompiler.Preprocessor.Hexagon.PreprocessorHexagon import PreprocessorHexagon as PP

    rng = random.Random(run.seed)
    pdir = os.path.join(common.REPO, PPDIR)
    rd = lambda n: open(os.path.join(pdir, n)).read()  # noqa
    work = tempfile.mkdtemp(prefix="verif-c20w-")
    cases = 0
    nontrivial = 0
    samples = []
    try:
        # ---- (1) bundled resolved file vs gcc -E
        macros_patched = rd("macros_patched.h")
        exp, exp_order, gerr = gcc_expand(macros_patched, rd("shortcode.h"), work)
        got, got_order = read_resolved(os.path.join(pdir, "shortcode_resolved.h"))
        n1 = compare_resolved(run, got, got_order, exp, exp_order, "bundled", macros_patched)
        cases += n1
        fn, obj = macro_names(macros_patched)
        sc = rd("shortcode.h")
        for m in re.finditer(r"DEF_SHORTCODE\((\w+),\s*(.*)\)\s*$", sc, re.M):
            if any(t in fn or t in obj for t in toks(m.group(2))):
                nontrivial += 1
        # ---- (2) replace_do_while_0 contract
        n2 = 4000 if tier == "quick" else 60000
        for i in range(n2):
            body = "insn(T%d, { %s })" % (i, gen_dowhile_body(rng))
            exp_t = strip_do_while0(body)
            try:
                g = PP.replace_do_while_0(body)
            except Exception as e:
                run.violation(f"replace_do_while_0 raises {type(e).__name__} on `{body[:120]}`", {"kind": "dowhile", "body": body}, key="dowhile_raise")
                continue
            cases += 1
            if toks(g) != exp_t:
                mech = "do_while_lookalike"
                if mech in run.findings and re.search(r"\w+do\s*\{", body):
                    run.known(mech, {"body": body[:200]})
                    continue
                run.violation(f"replace_do_while_0 changes more/less than the do-while(0) wrappers: `{body[:160]}` -> `{g.strip()[:160]}`", {"kind": "dowhile", "body": body, "got": g, "expected": " ".join(exp_t)}, key="dowhile")
            elif "while (0)" in body:
                nontrivial += 1
                if len(samples) < 2:
                    samples.append({"input": body[:200], "output": g.strip()[:200]})
        # ---- (3) patch merge contract on the bundled macro files
        merged = PP(os.path.join(pdir, "shortcode.h")).patch_macros(PP(os.path.join(pdir, "shortcode.h")).cleanup_macros())
        cases += 1
        patch_txt = re.sub(r"\\\s*\n", "", rd("patches_macros.h"))
        patches = {}
        for line in patch_txt.split("\n"):
            m = re.match(r"#define\s+(\w+)", line)
            if m:
                patches[m.group(1)] = line
        defs = {}
        for line in merged:
            m = re.match(r"#define\s+(\w+)", line)
            if not m:
                run.violation(f"patched macro list contains a line that is not a definition: {line[:100]!r}", {"kind": "merge_line", "line": line}, key="merge_line")
                continue
            defs.setdefault(m.group(1), []).append(line)
        for nm, line in patches.items():
            got_l = defs.get(nm, [])
            if len(got_l) != 1 or toks(got_l[0]) != toks(line):
                run.violation(f"patch of {nm} is not the single definition of that macro in the merged set ({len(got_l)} definitions)", {"kind": "merge_patch", "name": nm, "got": got_l, "patch": line}, key="merge_patch")
        # un-patched originals: the definition gcc keeps (last one wins) must be among the merged definitions
        for fname, flags in (("macros.inc", []), ("macros.h", []), ("macros_mmvec.h", ["-DQEMU_GENERATE"])):
            txt = "\n".join(l for l in rd(fname).split("\n") if not l.startswith("#include"))
            p = os.path.join(work, "orig.h")
            open(p, "w").write(txt)
            r = subprocess.run(["gcc", "-E", "-dM", "-undef", "-nostdinc", "-x", "c", "-w"] + flags + [p], capture_output=True, text=True)
            for line in r.stdout.split("\n"):
                m = re.match(r"#define\s+(\w+)", line)
                if not m or m.group(1) in patches or m.group(1).startswith("__") or m.group(1) == "QEMU_GENERATE":
                    continue
                cases += 1
                cands = defs.get(m.group(1), [])
                if not any(toks(c) == toks(line) for c in cands):
                    if not re.match(r"\w*_H$", m.group(1)) and not re.search(r"^#define\s+\w+\s*$", line):
                        run.violation(f"original macro {m.group(1)} of {fname} is missing from / altered in the merged set", {"kind": "merge_orig", "name": m.group(1), "gcc": line, "merged": cands}, key="merge_orig")
        if toks("\n".join(merged)) != toks(macros_patched):
            run.violation("patch_macros(cleanup_macros()) no longer reproduces the bundled macros_patched.h", {"kind": "merge_bundled"}, key="merge_bundled")
        # ---- (4) the real pipeline in scratch clones
        nclones = 1 if tier == "quick" else 6
        d, clone = make_clone()
        try:
            ok, err = run_pipeline(clone)
            cases += 1
            if not ok:
                run.note_inconclusive("pipeline run on the bundled sources failed: " + err)
            else:
                for fname in ("shortcode_resolved.h", "macros_patched.h", "combined.h"):
                    a = [l for l in open(os.path.join(clone, PPDIR, fname)) if not l.startswith("#line") and l.strip()]
                    b = [l for l in open(os.path.join(pdir, fname)) if not l.startswith("#line") and l.strip()]
                    if fname == "shortcode_resolved.h":
                        a = [l for l in a if not l.startswith("#")]
                        b = [l for l in b if not l.startswith("#")]
                    if a != b:
                        k = next((i for i, (x, y) in enumerate(zip(a, b)) if x != y), min(len(a), len(b)))
                        run.violation(f"regenerating from the bundled sources does not reproduce the bundled {fname} (first difference at line {k}: {a[k][:80] if k < len(a) else '<eof>'!r} vs {b[k][:80] if k < len(b) else '<eof>'!r})",
                                      {"kind": "regenerate", "file": fname}, key="regenerate:" + fname)
                    else:
                        nontrivial += 1
            for g in range(nclones + 1):
                files, eff, insns, pnames, orig = gen_sources(random.Random(f"{run.seed}:gen:{g}"))
                for fname, txt in files.items():
                    open(os.path.join(clone, PPDIR, fname), "w").write(txt)
                ok, err = run_pipeline(clone)
                cases += 1
                if not ok:
                    run.violation(f"pipeline fails on a generated macro/patch/shortcode set: {err[-200:]}", {"kind": "pipeline_generated", "files": files}, key="pipeline_generated")
                    continue
                got2, order2 = read_resolved(os.path.join(clone, PPDIR, "shortcode_resolved.h"))
                exp2, eorder2, _ = gcc_expand(eff, files["shortcode.h"], work)
                before = len(run.violations)
                n4 = compare_resolved(run, got2, order2, exp2, eorder2, f"generated{g}", eff)
                cases += n4
                if len(run.violations) > before:
                    run.violations[-1][1] and open(run.violations[-1][1].replace(".json", ".files.txt"), "w").write("\n\n".join(f"== {k}\n{v}" for k, v in files.items()) + "\n== effective\n" + eff)
                else:
                    nontrivial += n4
        finally:
            shutil.rmtree(d, ignore_errors=True)
    finally:
        shutil.rmtree(work, ignore_errors=True)
    run.assumptions = ["gcc -E -P -undef -nostdinc is the reference for standard C preprocessing", "comparison is token-wise; `#line` lines are ignored (they contain paths)",
                       "generated macro sets: the effective definition of an un-patched macro with several originals is its last one"]
    run.finish({
        "evaluations": cases, "distinct_nontrivial": nontrivial,
        "rule": "cases: bundled instructions compared token-wise with gcc -E output, generated bodies through replace_do_while_0, macro-merge obligations, pipeline runs in a scratch clone "
                "and their generated instructions; non-trivial = instructions whose definition invokes a macro / bodies containing a wrapper / regenerated files that match",
        "samples": samples or [{"note": "none"}], "bundled_instructions_compared": n1, "dowhile_bodies": n2, "pipeline_runs": nclones + 2,
    }, hard_inconclusive=None if n1 > 1000 else f"gcc -E produced too few instructions ({n1}): {gerr[:200]}")


def replay(path):
    import json

    rp = json.load(open(path))
    print(json.dumps({k: (v if len(str(v)) < 400 else str(v)[:400]) for k, v in rp.items()}, indent=1))
    if rp.get("kind") == "dowhile":
        harness.setup()
        from rzilcompiler.Preprocessor.Hexagon.PreprocessorHexagon import PreprocessorHexagon as PP

        g = PP.replace_do_while_0(rp["body"])
        print("now:", g)
        return 1 if toks(g) != strip_do_while0(rp["body"]) else 0
    return 1
