"""C08 - sub-routine calls follow the C calling convention and isolate the callee.

The 13 bundled sub-routines (through call wrappers) and randomly generated sub-routines registered
through the public API (Compiler.add_sub_routine) are called 1..4 times per expression, also as
arguments of calls, on a fresh and on an 'aged' compiler (temporaries numbered 1, 7, 40 before).
The emitted caller text and the callee bodies of the same compiler instance are executed by the IL
evaluator (callee inlined in the caller's flat local namespace, parameters bound by name) and compared
with the C call. The caller's live local `a` and every register are part of the comparison, so a
callee that overwrites caller state is seen."""
import random

from .. import common, diffcheck, gen, pipeline
from . import c01, c05


def main(tier):
    run = common.Run("C08", "exploration", tier)
    S = pipeline.Session()
    fam = diffcheck.Family(run, S, "C08")
    rng = random.Random(run.seed)
    items = gen.call_programs(rng, 140 if tier == "quick" else 2000)
    for nm, t in c01.SUB_WRAPPERS:
        for aged in (0, 1, 7, 40):
            items.append(dict(name=f"{nm}@{aged}", text=t, aged=aged, vkey=nm))
    # several calls of bundled sub-routines in one expression, fresh and aged
    for aged in (0, 1, 7, 40):
        items.append(dict(name=f"bundled2@{aged}", text="{ ReV = clo32(RsV) + clo32(RtV); RddV = clz64(RuuV) - clo64(RvvV); }", aged=aged, vkey="bundled2"))
        items.append(dict(name=f"bundled3@{aged}", text="{ int32_t a = RsV; ReV = fbrev(clz32(a)) + conv_round(a, uiV & 15) + revbit32(a); RddV = a; }", exports=[("a", "int32_t")], aged=aged, vkey="bundled3"))
    # directed: callee locals / loop counters with the caller's names, returns that are not in tail position (listed findings
    # callee_locals_shared, return_does_not_leave) and their well-behaved neighbours
    def D(name, text, subs, ex=()):
        ss, cs = [], {}
        for sdef in subs:
            a, b = gen.sub_item(*sdef)
            ss.append(a)
            cs.update(b)
        items.append(dict(name="dir;" + name, text=text, subs=ss, c_subs=cs, exports=list(ex), vkey="dir;" + name))

    a32 = [("a", "int32_t")]
    D("samelocal", "{ int32_t a = RsV; int32_t r = d1(RtV); RdV = a + r; }", [("d1", "int32_t", ["int32_t p"], "{ int32_t a = p * 2; return a + 1; }")], a32)
    D("sameparam", "{ int32_t p = RsV; int32_t r = d2(RtV); RdV = p + r; }", [("d2", "int32_t", ["int32_t p"], "{ return p + 1; }")], [("p", "int32_t")])
    D("loopvar", "{ int32_t s = 0; for (i = 0; i < 3; i++) { s += d3(i); } RdV = s; ReV = i; }", [("d3", "int32_t", ["int32_t p"], "{ int32_t d3_a = 0; for (i = 0; i < 4; i++) { d3_a += p; } return d3_a; }")])
    D("loopvar_ok", "{ int32_t s = 0; for (i = 0; i < 3; i++) { s += d4(i); } RdV = s; ReV = i; }", [("d4", "int32_t", ["int32_t p"], "{ int32_t d4_a = 0; for (j = 0; j < 4; j++) { d4_a += p; } return d4_a; }")])
    D("twocallees", "{ RdV = d5(RsV) + d6(RtV); }", [("d5", "int32_t", ["int32_t p"], "{ int32_t t = p + 1; return t * 2; }"), ("d6", "int32_t", ["int32_t p"], "{ int32_t t = p - 1; return t * 3; }")])
    D("earlyret", "{ RdV = d7(RsV); }", [("d7", "int32_t", ["int32_t p"], "{ if (p > 5) { return 1; } if (p > 2) { return 2; } return 3; }")])
    D("earlyret_loop", "{ RdV = d8(RsV & 7); }", [("d8", "int32_t", ["int32_t p"], "{ for (j = 0; j < 4; j++) { if (j == p) { return j + 10; } } return 0; }")])
    D("tailret", "{ RdV = d9(RsV); }", [("d9", "int32_t", ["int32_t p"], "{ if (p > 5) { return 1; } else { if (p > 2) { return 2; } else { return 3; } } }")])
    D("retcmp", "{ RdV = d10(RsV) + 1; }", [("d10", "int32_t", ["int32_t p"], "{ return p > 3; }")])
    D("argswap", "{ int32_t a = RsV; int32_t b = RtV; RdV = d11(b, a); }", [("d11", "int32_t", ["int32_t a", "int32_t b"], "{ return a - b; }")], a32)
    # explicit casts at the call site (the cast decides how the value is extended to the parameter type) and on returned values
    for pt in ("int64_t", "uint64_t", "int32_t", "uint16_t"):
        for ct in gen.TYPES:
            D(f"argcast;{pt};{ct}", f"{{ uint32_t u = RsV; int32_t s = RtV; RddV = (int64_t) dc_{pt[:-2]}(({ct}) u) + dc_{pt[:-2]}(({ct}) s) * 3; RyyV = dc_{pt[:-2]}(({ct}) RsV); }}",
              [(f"dc_{pt[:-2]}", pt, [f"{pt} v"], "{ return v; }")])
    for it in items:
        it["states_fn"] = c05.trip_states
    fam.replay_witnesses()
    progs, kept = fam.compile(items)
    # isolation monitor (all paths, static): no callee body - nested callees included - writes a local name that the caller reads or writes
    from .. import ilfront as IL

    iso_checked = 0
    for p in progs:
        try:
            term = IL.resolve(IL.parse_body(p.rzil))
            subs = S.subs_for(p.il_sub_defs, p.extra.get("sub_sigs"))
        except IL.ILSyntaxError:
            continue
        def names_and_calls(t):
            names, writes, calls_ = set(), set(), []
            for n in IL.walk(t):
                if isinstance(n, tuple) and n:
                    if n[0] in ("VARL", "SETL") and n[1][0] == "str":
                        names.add(n[1][1])
                        if n[0] == "SETL":
                            writes.add(n[1][1])
                    elif n[0].startswith("hex_") and n[0][4:] in subs:
                        calls_.append(n[0][4:])
            return names - {"ret_val"}, writes - {"ret_val"}, calls_

        def reach_writes(c, seen):
            """locals written by callee c and everything it calls"""
            if c in seen:
                return set()
            seen.add(c)
            _, w, cs = names_and_calls(subs[c].term)
            for c2 in cs:
                w |= reach_writes(c2, seen)
            return w

        # the instruction body against its callees, and every callee body against its own callees
        frames = [("<caller>", term)] + [(c, subs[c].term) for c in sorted({n[0][4:] for n in IL.walk(term) if isinstance(n, tuple) and n and n[0].startswith("hex_") and n[0][4:] in subs})]
        done = set()
        while frames:
            fname, fterm = frames.pop()
            if fname in done:
                continue
            done.add(fname)
            names, _, cs = names_and_calls(fterm)
            for c in cs:
                iso_checked += 1
                clash = reach_writes(c, set()) & names
                if clash and not any(x.startswith("h_tmp") for x in clash):
                    # source-level locals of a callee that the caller's source uses too: the listed finding, if the sources say so
                    from .. import findings

                    mech, shared = findings.routine_signature(p.src, [tuple(x) for x in p.extra["item"].get("subs", [])])
                    if mech == "callee_locals_shared" and clash <= set(shared) and run.known(mech, {"source": p.src, "callee": c, "names": sorted(clash)}):
                        continue
                if clash:
                    run.violation(f"callee {c} (or a routine it calls) writes the local(s) {sorted(clash)} that {fname} uses: `{p.src[:100]}`",
                                  {"kind": "isolation", "frame": fname, "callee": c, "names": sorted(clash), "text": p.src, "subs": p.extra["item"].get("subs", []), "aged": p.extra["item"].get("aged", 0)},
                                  key="isolation:" + ("tmp" if any(x.startswith("h_tmp") for x in clash) else "local"))
                if c not in done:
                    frames.append((c, subs[c].term))
    nst = 40 if tier == "quick" else 160
    calls = [0]

    def nontrivial(p, r):
        calls[0] += r.calls
        return r.calls > 0

    fam.differential(progs, nst, clang=(tier == "thorough"), nontrivial=nontrivial, key_of=lambda p: p.name)
    cov = fam.coverage()
    cov.update({
        "evaluations": fam.stats["evaluations"], "distinct_nontrivial": len(fam.nontrivial),
        "rule": "one case = (caller program with its registered sub-routines, state) with a defined C execution; distinct non-trivial = all compared "
                "executions agreed and at least one callee body was executed by the IL evaluator",
        "samples": fam.samples or [{"note": "none"}], "states_per_program": nst, "callee_bodies_executed": calls[0], "caller_callee_pairs_checked_for_isolation": iso_checked,
        "generated_subroutines": sum(len(it.get("subs", ())) for it in kept), "aged_variants": sorted({it.get("aged", 0) for it in kept}),
    })
    run.assumptions = ["callee bodies are inlined by name in the caller's flat local namespace, pure parameters bound by name (what the plugin's C functions do)",
                       "randomly generated sub-routines name their locals with the routine's name as prefix and return in tail position only (the directed programs dir;* cover the listed findings about shared local names and early returns)"]
    run.finish(cov, hard_inconclusive=None if fam.stats["evaluations"] > 0 and calls[0] > 0 else "no callee executed")


def replay(path):
    return diffcheck.replay_prog(path)
