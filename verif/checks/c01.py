"""C01 - shipped instruction behaviours are translated faithfully end to end.

Every accepted part of the bundled corpus (quick: stratified sample; thorough: all 2181
definitions) is compiled through the real per-task path (parse_single + transform_insn) in a
pristine forked child; the emitted IL is executed by the IL evaluator and compared with the
behaviour text compiled as C on boundary-biased random initial states. The 13 bundled
sub-routines are exercised through call wrappers. Rejections are recorded, not failed."""
import collections
import random

from .. import common, diffcheck, pipeline
from .. import diff as D

SUB_WRAPPERS = [
    ("sub:clz32", "{ RdV = clz32(RsV); }"),
    ("sub:clz64", "{ RddV = clz64(RssV); }"),
    ("sub:clo32", "{ RdV = clo32(RsV); }"),
    ("sub:clo64", "{ RddV = clo64(RssV); }"),
    ("sub:revbit16", "{ RdV = revbit16(RsV); }"),
    ("sub:revbit32", "{ RdV = revbit32(RsV); }"),
    ("sub:revbit64", "{ RddV = revbit64(RssV); }"),
    ("sub:fbrev", "{ RdV = fbrev(RsV); }"),
    ("sub:conv_round", "{ RdV = conv_round(RsV, uiV); }"),
    ("sub:trap", "{ trap(RsV, uiV); RdV = RtV; }"),
    ("sub:set_usr_field", "{ set_usr_field(bundle, HEX_REG_FIELD_USR_OVF, RsV); set_usr_field(bundle, HEX_REG_FIELD_USR_LPCFG, RtV); }"),
    ("sub:get_usr_field", "{ RdV = get_usr_field(bundle, HEX_REG_FIELD_USR_LPCFG); }"),
    ("sub:fcirc_add", "{ RdV = fcirc_add(bundle, RxV, siV, MuV, get_corresponding_CS(pkt, MuV)); }"),
]


FLOATS = [0.0, -0.0, 1.0, -1.0, 1.5, 2.5, -2.5, 0.5, -0.5, 0.49999997, 3.75, 100.25, 123456.789, -98765.4321, 1e10, 2147483647.5, 2147483648.0, -2147483648.5,
          4294967295.5, 4294967296.0, 9.2e18, -9.2e18, 1.8e19, 16777217.0, 0.1, 1e-5, 3.4e38, 1e300]


def float_states(rng, ops):
    """register values that are bit patterns of interesting floats / doubles"""
    import struct

    from .. import coracle as CO

    out = []
    for _ in range(40):
        st = CO.gen_state(rng, ops)
        for k, o in enumerate(ops):
            if o["kind"] != "reg" or o["slot"] in "de":
                continue
            f = rng.choice(FLOATS) * rng.choice([1, 1, 1, -1, 0.5, 3])
            if o["w"] == 64:
                v = struct.unpack("<Q", struct.pack("<d", f))[0]
            elif o["w"] == 32:
                try:
                    v = struct.unpack("<I", struct.pack("<f", f))[0]
                except OverflowError:
                    continue
            else:
                continue
            if rng.random() < 0.3:
                # small integers for the int -> float direction
                v = rng.choice([0, 1, 2, 3, 0x7FFFFFFF, 0x80000000, 0xFFFFFFFF, 16777217, 123456789]) if o["w"] == 32 else rng.choice([0, 1, (1 << 53) + 1, (1 << 63), (1 << 64) - 1, 1234567890123456789])
            st["old"][o["key"]] = v
            st["vals"][k] = v
        out.append(st)
    return out


def main(tier):
    run = common.Run("C01", "exploration", tier)
    S = pipeline.Session()
    fam = diffcheck.Family(run, S, "C01")
    beh = S.behaviors
    if tier == "quick":
        names = __import__("verif.corpus", fromlist=["x"]).stratified_sample(beh, 200, run.seed)
    else:
        names = sorted(beh)
    fam.replay_witnesses()
    res = S.compile_insns(names)
    progs = []
    rejected = collections.Counter()
    accepted = 0
    noped = 0
    for nm, r in zip(names, res):
        fam.stats["generated"] += 1
        if r.get("timeout") or r.get("harness_error"):
            run.note_inconclusive(f"{nm}: {r.get('harness_error', 'timeout')}"[:200])
            continue
        tr = r.get("trace", {})
        for cv in tr.get("contract_violations", ()):
            run.violation(f"contract {cv[0]} violated while compiling {nm}: {cv[1]}", {"kind": "contract", "insn": nm, "detail": cv}, key="contract:" + cv[0])
        fam.contract_evals["c11_cast"] += tr.get("c11", 0)
        fam.contract_evals["promoted_type"] += tr.get("promo", 0)
        fam.contract_evals["Cast.il_exec"] += len(tr.get("casts", ()))
        for k, v in tr.get("rules", {}).items():
            fam.rules[k] += v
        if not r.get("ok"):
            e = r["exc"]
            rejected[f"{e.get('stage')}:{e.get('inner')}"] += 1
            fam.stats["rejected"] += 1
            continue
        accepted += 1
        fam.stats["accepted"] += 1
        for i, (b, z) in enumerate(zip(beh[nm], r["rzil"])):
            if z.strip() == "return NOP();" and r["meta"][i] == ["HEX_IL_INSN_ATTR_NONE"] and nm in S.comps["rs"].noped_insns:
                noped += 1
                continue
            extra = {"item": {"name": f"{nm}#{i}", "text": b, "vkey": nm, "insn": nm, "part": i}}
            if "FLOAT(" in b or "DOUBLE(" in b:
                extra["states_fn"] = float_states
            progs.append(D.Prog(f"{nm}#{i}", b, z, extra=extra))
    fam.rejected = rejected
    # sub-routine call wrappers go through compile_c_stmt
    wprogs, _ = fam.compile([dict(name=n, text=t, vkey=n) for n, t in SUB_WRAPPERS])
    # what the bundled routines mean (reference models, verif/submodels.py) and circular-buffer boundary states for fcirc_add
    from .. import submodels

    refs = submodels.wrapper_refs()
    for p in wprogs:
        if p.name in refs:
            p.extra["ref_fn"] = refs[p.name]
    for p in progs + wprogs:
        if "fcirc_add" in p.src:
            p.extra["states_fn"] = submodels.circ_states
    nst = 64 if tier == "quick" else 256
    allp = progs + wprogs
    out = fam.differential(allp, nst, clang=(tier == "thorough"), nontrivial=lambda p, r: r.changed > 0, key_of=lambda p: p.name, deepen=True)
    cov = fam.coverage()
    cov.update({
        "evaluations": fam.stats["evaluations"],
        "distinct_nontrivial": len(fam.nontrivial),
        "rule": "one case = (accepted behaviour part or sub-routine wrapper, initial state) with a defined C execution; a part is distinct non-trivial "
                "when all its compared executions agreed and at least one of them changed a register, memory, jump or cancel observable",
        "samples": fam.samples or [{"note": "none"}],
        "instructions_compiled": len(names), "instructions_accepted": accepted, "parts_compared": len(progs), "noped_parts_skipped": noped,
        "subroutine_wrappers": len(wprogs), "states_per_part": nst,
        "routine_reference_model_executions": sum(r.refchecked for p, r, _ in out if p.name.startswith("sub:")),
        "c_source_redeclaration_rewrites": fam.info.get("c_rewritten", []),
    })
    run.assumptions = ["trusted architectural / plugin-macro model of DESIGN section 3 (banks, READ_REG/WRITE_REG, memory, jump, USR)",
                       "floating point instructions: finite in-range values under round-to-nearest-even only; HVX is rejected by the compiler",
                       "instructions on the no-op list are not compared with their C text (they are defined to be NOP)"]
    run.finish(cov, hard_inconclusive=None if fam.stats["evaluations"] > 0 else "no execution was compared")


def replay(path):
    import json

    rp = json.load(open(path))
    if "#" not in rp.get("name", "") or rp["name"].startswith("sub:"):
        return diffcheck.replay_prog(path)
    S = pipeline.Session()
    nm, part = rp["name"].split("#")
    r = S.compile_insns([nm])[0]
    if not r.get("ok"):
        print("now rejected:", r.get("exc"))
        return 0
    p = D.Prog(rp["name"], S.behaviors[nm][int(part)], r["rzil"][int(part)])
    print("emitted text identical to the recorded one:", p.rzil == rp.get("emitted"))
    results, info = S.differential([p], 64 if rp.get("tier") == "quick" else 256, seed=rp.get("seed", 1))
    x = results[0]
    print("verdict:", x.verdict(), "ok", x.ok, "diff", x.diff, "ilsort", x.ilsort, "defuse", x.defuse, "ub", x.ub)
    for f in x.fail_states:
        print("  ", f)
    return 1 if x.verdict() not in ("ok", "none_compared") else 0
