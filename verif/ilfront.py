"""E2 - IL front end. Reads the text the compiler returned, nothing else.

(a) statement/expression parser for the emitted RzIL-building C body
(b) C well-formedness checker                      (C11)
(c) ownership counter                              (C12)
(d) static sort checker over the whole term, all arms (C10)
(e) big-step evaluator with coverage and def-use log (C01..C09, C16)
"""
import re

# --------------------------------------------------------------------------- lexing / parsing
TOK = re.compile(
    r"""\s*(?:(?P<str>"(?:[^"\\]|\\.)*")|(?P<chr>'(?:[^'\\]|\\.)')|(?P<num>-?0[xX][0-9a-fA-F]+|-?\d+\.\d*(?:[eE][-+]?\d+)?|-?\d+)(?P<suf>[uUlL]*)"""
    r"""|(?P<id>[A-Za-z_]\w*)|(?P<arrow>->)|(?P<p>[()&,*=]))"""
)
C_KEYWORDS = {
    "auto", "break", "case", "char", "const", "continue", "default", "do", "double", "else", "enum", "extern", "float",
    "for", "goto", "if", "inline", "int", "long", "register", "restrict", "return", "short", "signed", "sizeof", "static",
    "struct", "switch", "typedef", "union", "unsigned", "void", "volatile", "while",
}
DECL_TYPES = {"RzILOpPure", "RzILOpBool", "RzILOpEffect", "HexOp", "HexPkt", "HexInsn"}
C_CAST_TYPES = {"st8", "st16", "st32", "st64", "ut8", "ut16", "ut32", "ut64"}


class ILSyntaxError(Exception):
    pass


def strip_comments(text: str) -> tuple[str, list[str]]:
    comments = re.findall(r"//[^\n]*", text)
    return re.sub(r"//[^\n]*", "", text), comments


def split_statements(text: str) -> list[str]:
    out, cur, depth, i, n = [], [], 0, 0, len(text)
    while i < n:
        ch = text[i]
        if ch == '"' or ch == "'":
            j = i + 1
            while j < n and text[j] != ch:
                j += 2 if text[j] == "\\" else 1
            if j >= n:
                raise ILSyntaxError("unterminated literal")
            cur.append(text[i:j + 1])
            i = j + 1
            continue
        if ch == "(":
            depth += 1
        elif ch == ")":
            depth -= 1
            if depth < 0:
                raise ILSyntaxError("unbalanced ')'")
        if ch == ";" and depth == 0:
            s = "".join(cur).strip()
            out.append(s)
            cur = []
        else:
            cur.append(ch)
        i += 1
    rest = "".join(cur).strip()
    if depth != 0:
        raise ILSyntaxError("unbalanced '('")
    if rest:
        raise ILSyntaxError(f"text after the last ';': {rest[:60]!r}")
    return out


def tokenize(s: str):
    pos, out = 0, []
    s = s.strip()
    while pos < len(s):
        m = TOK.match(s, pos)
        if not m:
            raise ILSyntaxError(f"bad token at {s[pos:pos + 30]!r}")
        pos = m.end()
        k = m.lastgroup
        if k == "suf":
            k = "num"
        if m.group("num") is not None:
            out.append(("num", m.group("num"), m.group("suf") or ""))
        else:
            out.append((k, m.group(k), ""))
    return out


class _P:
    def __init__(self, toks):
        self.t = toks
        self.i = 0

    def peek(self):
        return self.t[self.i] if self.i < len(self.t) else (None, None, "")

    def eat(self, v=None):
        k, x, s = self.peek()
        if k is None:
            raise ILSyntaxError("unexpected end of expression")
        if v is not None and x != v:
            raise ILSyntaxError(f"expected {v!r} got {x!r}")
        self.i += 1
        return k, x, s

    def expr(self):
        k, x, suf = self.peek()
        if x == "(":
            self.eat("(")
            _, ty, _ = self.eat()
            if ty not in C_CAST_TYPES:
                raise ILSyntaxError(f"parenthesised expression / unknown cast type {ty!r}")
            self.eat(")")
            return ("ccast", ty, self.expr())
        if x == "&":
            self.eat()
            kk, n, _ = self.eat()
            if kk != "id":
                raise ILSyntaxError("& of non-identifier")
            return ("addr", ("id", n))
        if k == "num":
            self.eat()
            if "." in x or "e" in x.lower() and not x.lower().startswith(("0x", "-0x")):
                return ("fnum", x)
            return ("num", int(x, 0), suf)
        if k == "str":
            self.eat()
            return ("str", x[1:-1])
        if k == "chr":
            self.eat()
            return ("chr", x[1:-1])
        if k == "id":
            self.eat()
            if self.peek()[1] == "(":
                self.eat("(")
                args = []
                if self.peek()[1] != ")":
                    args.append(self.expr())
                    while self.peek()[1] == ",":
                        self.eat(",")
                        args.append(self.expr())
                self.eat(")")
                return (x,) + tuple(args)
            if self.peek()[0] == "arrow":
                self.eat()
                kk, f, _ = self.eat()
                if kk != "id":
                    raise ILSyntaxError("-> without member name")
                return ("member", x, f)
            return ("id", x)
        raise ILSyntaxError(f"unexpected {x!r}")


def parse_expr(s: str):
    p = _P(tokenize(s))
    e = p.expr()
    if p.i != len(p.t):
        raise ILSyntaxError(f"trailing tokens in {s[:80]!r}")
    return e


DECL = re.compile(r"^(?P<const>const\s+)?(?P<ty>[A-Za-z_]\w*)\s*(?P<ptr>\*?)\s*(?P<name>[A-Za-z_]\w*)\s*=\s*(?P<e>.*)$", re.S)


class Body:
    """Parsed emitted body: decls = [(ctype, is_ptr, name, raw_term)], ret = raw term, comments."""

    def __init__(self):
        self.decls = []
        self.ret = None
        self.comments = []
        self.problems = []  # well-formedness problems found while parsing


def parse_body(text: str) -> Body:
    b = Body()
    text, b.comments = strip_comments(text)
    stmts = split_statements(text)
    for idx, s in enumerate(stmts):
        if not s:
            b.problems.append("empty statement")
            continue
        if re.match(r"^return\b", s):
            if idx != len(stmts) - 1:
                b.problems.append("return is not the last statement")
            if b.ret is not None:
                b.problems.append("more than one return")
            b.ret = parse_expr(s[len("return"):].strip())
            continue
        m = DECL.match(s)
        if not m:
            raise ILSyntaxError(f"statement is neither a declaration with initialiser nor the return: {s[:80]!r}")
        ty = m.group("ty")
        if ty not in DECL_TYPES:
            raise ILSyntaxError(f"declaration of unknown type {ty!r}: {s[:60]!r}")
        b.decls.append((ty, bool(m.group("ptr")), m.group("name"), parse_expr(m.group("e"))))
    if b.ret is None:
        b.problems.append("no final return")
    return b


SUBDEF = re.compile(r"^\s*RZ_OWN\s+RzILOpEffect\s*\*\s*hex_(\w+)\s*\((.*?)\)\s*\{", re.S)


def parse_subroutine_def(text: str):
    """-> (name, params[(kind, name)], Body)"""
    m = SUBDEF.match(text)
    if not m:
        raise ILSyntaxError(f"not a sub-routine definition: {text[:80]!r}")
    name = m.group(1)
    params = []
    for p in m.group(2).split(","):
        p = p.strip()
        if not p:
            continue
        pname = re.findall(r"\w+", p)[-1]
        kind = "pure" if "RzILOpPure" in p else "ext"
        params.append((kind, pname, p))
    body = text[m.end():]
    end = body.rstrip()
    if not end.endswith("}"):
        raise ILSyntaxError("sub-routine definition does not end with '}'")
    inner = end[:-1]
    # the body itself is wrapped in one more brace pair by SubRoutine.check_for_bundle_usage
    inner_s = inner.strip()
    if inner_s.startswith("{") and inner_s.endswith("}"):
        inner = inner_s[1:-1]
    b = parse_body(inner)
    return name, params, b


# --------------------------------------------------------------------------- vocabulary
PURE_OPS = {
    "SN", "UN", "U8", "U16", "U32", "U64", "S8", "S16", "S32", "S64", "VARL", "VARLP", "LET", "READ_REG", "CAST", "SIGNED",
    "UNSIGNED", "MSB", "LSB", "NON_ZERO", "IS_ZERO", "ADD", "SUB", "MUL", "DIV", "MOD", "SDIV", "SMOD", "LOGAND", "LOGOR",
    "LOGXOR", "LOGNOT", "NEG", "INC", "DEC", "SHIFTL0", "SHIFTR0", "SHIFTRA", "EQ", "ULT", "ULE", "UGT", "UGE", "SLT", "SLE",
    "SGT", "SGE", "AND", "OR", "XOR", "INV", "ITE", "LOADW", "EXTRACT64", "EXTRACT32", "SEXTRACT64", "DEPOSIT64", "DEPOSIT32",
    "BSWAP16", "BSWAP32", "BSWAP64", "HEX_REGFIELD", "HEX_GET_CORRESPONDING_CS", "BV2F", "F2BV", "FADD", "FSUB", "FMUL",
    "FDIV", "FEQ", "FLT", "FLE", "FGT", "FGE", "FNEQ", "HEX_D_TO_INT", "HEX_D_TO_SINT", "HEX_F_TO_INT", "HEX_F_TO_SINT",
    "HEX_INT_TO_D", "HEX_SINT_TO_D", "HEX_INT_TO_F", "HEX_SINT_TO_F", "IS_INF", "DUP", "APPEND", "LOAD", "IL_TRUE_", "FNEG",
    "FABS", "IS_FZERO", "IS_FNEG", "IS_FPOS", "IS_NAN", "F32", "F64",
}
EFFECT_OPS = {"SETL", "WRITE_REG", "STOREW", "SEQN", "SEQ2", "SEQ3", "SEQ4", "SEQ5", "SEQ6", "SEQ7", "SEQ8", "BRANCH", "REPEAT",
              "NOP", "EMPTY", "HEX_STORE_SLOT_CANCELLED", "HEX_GET_NPC", "HEX_SETROUND", "JMP", "STORE", "SETG"}
HANDLE_OPS = {"ISA2REG", "EXPLICIT2OP", "ALIAS2OP", "NREG2OP"}
C_OPS = {"ISA2IMM", "HEX_GET_INSN_RMODE"}
CONST_ID = re.compile(r"^(HEX_REG_CLASS_\w+|HEX_REG_ALIAS_\w+|HEX_REG_FIELD_\w+|HEX_RF_\w+|RZ_FLOAT_\w+|IL_TRUE|IL_FALSE|true|false)$")

REGFIELD = {"HEX_REG_FIELD_USR_OVF": (0, 1), "HEX_REG_FIELD_USR_LPCFG": (8, 2), "HEX_REG_FIELD_USR_FPINVF": (1, 1)}
CLASSW = {
    "HEX_REG_CLASS_INT_REGS": 32, "HEX_REG_CLASS_DOUBLE_REGS": 64, "HEX_REG_CLASS_PRED_REGS": 8,
    "HEX_REG_CLASS_CTR_REGS": 32, "HEX_REG_CLASS_CTR_REGS64": 64, "HEX_REG_CLASS_MOD_REGS": 32,
    "HEX_REG_CLASS_GUEST_REGS": 32, "HEX_REG_CLASS_GUEST_REGS64": 64, "HEX_REG_CLASS_SYS_REGS": 32,
    "HEX_REG_CLASS_SYS_REGS64": 64,
}
ALIAS64 = {"UPCYCLE", "PKTCOUNT", "UTIMER"}
FMTW = {"RZ_FLOAT_IEEE754_BIN_32": 32, "RZ_FLOAT_IEEE754_BIN_64": 64}


def walk(t):
    """all nodes of a raw term"""
    yield t
    if isinstance(t, tuple):
        start = 1
        for a in t[start:]:
            if isinstance(a, tuple):
                yield from walk(a)


# --------------------------------------------------------------------------- (b) well-formedness
def wellformed(b: Body, params=(), known_subs=(), is_sub=False) -> list[str]:
    """C11 (structural part). params: identifiers usable without declaration."""
    probs = list(b.problems)
    declared = {}
    free_ok = set(params)
    order = []

    def chk_term(t, where):
        for n in walk(t):
            if not isinstance(n, tuple):
                continue
            k = n[0]
            if k == "id":
                name = n[1]
                if name in C_KEYWORDS:
                    probs.append(f"{where}: keyword {name} used as identifier")
                elif name in declared or name in free_ok or CONST_ID.match(name):
                    pass
                else:
                    probs.append(f"{where}: identifier {name} used before/without declaration")
            elif k == "num":
                v = n[1]
                if not (-(1 << 63) <= v < (1 << 64)):
                    probs.append(f"{where}: integer literal {v:#x} does not fit 64 bits")
            elif k == "fnum":
                probs.append(f"{where}: floating literal {n[1]} is not a valid IL constant")
            elif k == "member":
                if n[1] not in declared and n[1] not in free_ok:
                    probs.append(f"{where}: {n[1]}->{n[2]} with undeclared {n[1]}")
            elif k in ("ccast", "addr", "str", "chr"):
                pass
            else:
                # function-like macro
                if not (k in PURE_OPS or k in EFFECT_OPS or k in HANDLE_OPS or k in C_OPS or (k.startswith("hex_") and k[4:] in known_subs)):
                    probs.append(f"{where}: call of unknown function/macro {k}")

    for ty, ptr, name, term in b.decls:
        if name in C_KEYWORDS:
            probs.append(f"declared name {name} is a keyword")
        chk_term(term, name)
        if name in declared or name in free_ok and name not in ("pkt", "hi"):
            probs.append(f"{name} declared twice")
        if name in ("pkt", "hi") and not is_sub:
            probs.append(f"{name} declared inside an instruction body")
        declared[name] = ty
        order.append(name)
        if ty in ("RzILOpPure", "RzILOpBool", "RzILOpEffect", "HexPkt") and not ptr:
            probs.append(f"{name}: {ty} must be declared as pointer")
    if b.ret is not None:
        chk_term(b.ret, "return")
        r = b.ret
        if not (r == ("NOP",) or (r[0] == "id" and declared.get(r[1]) == "RzILOpEffect") or r[0] in EFFECT_OPS or r[0].startswith("hex_")):
            probs.append(f"return of non-effect {r!r}"[:120])
    return probs


def mentions(text: str, name: str) -> bool:
    code, _ = strip_comments(text)
    return re.search(rf"(?<![\w\"']){name}(?![\w\"'])", code) is not None


# --------------------------------------------------------------------------- (c) ownership
def ownership(b: Body, pure_params=()) -> list[str]:
    """C12: every pure variable consumed exactly once un-DUPed, effects used exactly once,
    borrowed pure parameters consumed at most once, nothing initialised and unused."""
    raw = {}
    dup = {}
    kind = {}
    for p in pure_params:
        raw[p] = 0
        dup[p] = 0
        kind[p] = "param"

    def count(t, under_dup=False):
        if not isinstance(t, tuple):
            return
        if t[0] == "id":
            n = t[1]
            if n in raw:
                if under_dup:
                    dup[n] += 1
                else:
                    raw[n] += 1
            return
        if t[0] in ("num", "fnum", "str", "chr", "member"):
            return
        if t[0] == "DUP":
            if len(t) == 2 and isinstance(t[1], tuple) and t[1][0] == "id":
                count(t[1], True)
            else:
                for a in t[1:]:
                    count(a)
            return
        if t[0] in ("ccast",):
            count(t[2])
            return
        if t[0] == "addr":
            return  # &x_op : C value, not an IL node
        for a in t[1:]:
            count(a)

    probs = []
    for ty, ptr, name, term in b.decls:
        count(term)
        if ty in ("RzILOpPure", "RzILOpBool"):
            raw[name], dup[name], kind[name] = 0, 0, "pure"
        elif ty == "RzILOpEffect":
            raw[name], dup[name], kind[name] = 0, 0, "effect"
    if b.ret is not None:
        count(b.ret)
    for n, k in kind.items():
        if k == "pure":
            if raw[n] == 0 and dup[n] == 0:
                probs.append(f"pure {n} initialised but never used (leak)")
            elif raw[n] == 0:
                probs.append(f"pure {n} only used through DUP, never consumed (leak)")
            elif raw[n] > 1:
                probs.append(f"pure {n} consumed {raw[n]} times without DUP (double free)")
        elif k == "effect":
            if dup[n]:
                probs.append(f"effect {n} wrapped in DUP")
            if raw[n] == 0:
                probs.append(f"effect {n} initialised but never used (leak / never sequenced)")
            elif raw[n] > 1:
                probs.append(f"effect {n} used {raw[n]} times (double free)")
        elif k == "param":
            if raw[n] > 1:
                probs.append(f"borrowed parameter {n} consumed {raw[n]} times without DUP")
    return probs


# --------------------------------------------------------------------------- resolution
def resolve(b: Body):
    """Substitute C variables by their initialisers, drop DUP. Returns the effect term."""
    env = {}

    def sub(t):
        if not isinstance(t, tuple):
            return t
        k = t[0]
        if k == "id":
            return env.get(t[1], t)
        if k in ("num", "fnum", "str", "chr", "member"):
            return t
        if k == "DUP" and len(t) == 2:
            return sub(t[1])
        if k == "addr":
            return sub(t[1])
        return (k,) + tuple(sub(a) for a in t[1:])

    for ty, ptr, name, term in b.decls:
        if ty in ("HexPkt", "HexInsn"):
            continue
        env[name] = sub(term)
    if b.ret is None:
        raise ILSyntaxError("no return")
    return sub(b.ret)


class Sub:
    def __init__(self, name, params, body: Body, sig=None):
        self.name = name
        self.params = params  # [(kind, name, decl)]
        self.body = body
        self.term = resolve(body)
        self.sig = sig  # {"ret": (signed, width)|None, "params": [(name, kind, signed, width)]}

    def param_width(self, k):
        if self.sig and k < len(self.sig["params"]) and self.sig["params"][k][1] == "pure":
            return self.sig["params"][k][3]
        return None


def parse_subs(defs: dict, sigs: dict | None = None) -> dict:
    out = {}
    for n, text in defs.items():
        name, params, body = parse_subroutine_def(text)
        out[name] = Sub(name, params, body, (sigs or {}).get(n))
    return out


# --------------------------------------------------------------------------- helpers
def mask(w):
    return (1 << w) - 1


def sx(w, v):
    v &= mask(w)
    return v - (1 << w) if v >> (w - 1) else v


def mix(seed, addr):
    x = ((addr * 0x9E3779B1) ^ seed) & 0xFFFFFFFF
    x ^= x >> 15
    x = (x * 0x85EBCA77) & 0xFFFFFFFF
    x ^= x >> 13
    return x & 0xFF


class Unmodelled(Exception):
    pass


class ILTypeError(Exception):
    pass


class DefUseError(Exception):
    """read of a local (h_tmpN, ...) that no executed SETL has written"""


def cnum(t, imm=None, pc=None):
    """C-level integer constant expression."""
    k = t[0]
    if k == "num":
        return t[1]
    if k == "ccast":
        v = cnum(t[2], imm, pc)
        ty = t[1]
        w = int(ty[2:])
        return sx(w, v) if ty[0] == "s" else v & mask(w)
    if k == "ISA2IMM":
        if imm is None:
            return None
        return imm[t[2][1]]
    if k == "member" and t[1:] == ("pkt", "pkt_addr"):
        return pc
    if k == "fnum":
        raise ILTypeError(f"floating literal {t[1]} where an integer constant is required")
    raise Unmodelled(f"C expression {t!r}"[:80])


def handle_of(t, penv):
    k = t[0]
    if k == "ISA2REG":
        return ("slot", t[2][1], t[3] == ("id", "true"))
    if k == "EXPLICIT2OP":
        return ("expl", t[2][1], t[1][1], t[3] == ("id", "true"))
    if k == "ALIAS2OP":
        return ("alias", t[1][1][len("HEX_REG_ALIAS_"):], t[2] == ("id", "true"))
    if k == "NREG2OP":
        return ("nreg", t[2][1], True)
    if k == "id" and penv is not None and t[1] in penv:
        tt, pe = penv[t[1]]
        return handle_of(tt, pe)
    raise Unmodelled(f"handle {t!r}"[:80])


def hkey(h):
    if h[0] == "slot":
        return "slot:" + h[1]
    if h[0] == "nreg":
        return "nreg:" + h[1]
    if h[0] == "expl":
        return f"expl:{h[1]}:{h[2]}"
    return "alias:" + h[1]


def hwidth(h, slotw):
    if h[0] == "slot":
        if h[1] not in slotw:
            raise Unmodelled(f"width of operand slot {h[1]!r} unknown")
        return slotw[h[1]]
    if h[0] == "nreg":
        return 32
    if h[0] == "expl":
        if h[1] not in CLASSW:
            raise Unmodelled(f"register class {h[1]}")
        return CLASSW[h[1]]
    if h[0] == "alias":
        return 64 if h[1] in ALIAS64 else 32
    raise Unmodelled(str(h))


# --------------------------------------------------------------------------- (d) static sort checker
BV, BOOL, FLOAT, EFFECT = "bv", "bool", "float", "effect"


class SortChecker:
    """Types every node of the effect, all arms. Collects problems instead of stopping at the first."""

    def __init__(self, slotw: dict, subs: dict):
        self.slotw = slotw
        self.subs = subs
        self.problems = []
        self.locals = {}  # name -> sort
        self.local_conflicts = {}
        self.nodes = 0
        self.ops = {}
        self.rules = {}
        self.unknown = []
        self._memo = {}
        self.changed = False
        self.setl_names = set()

    def prob(self, rule, msg):
        self.rules[rule] = self.rules.get(rule, 0) + 1
        m = f"{rule}: {msg}"
        if m not in self.problems and len(self.problems) < 40:
            self.problems.append(m)

    def fire(self, rule):
        self.rules[rule] = self.rules.get(rule, 0)

    def run_with_env(self, term, penv):
        return self.run(term, penv)

    def run(self, term, penv=None):
        # fixed point over local sorts
        for it in range(8):
            self.changed = False
            self.problems = []
            self.unknown = []
            self._memo = {}
            self.nodes = 0
            self._final = False
            self.effect(term, penv, ())
            if not self.changed:
                break
        self._final = True
        self.problems = []
        self.unknown = []
        self._memo = {}
        self.nodes = 0
        self.effect(term, penv, ())
        for n, ss in self.local_conflicts.items():
            self.prob("local_single_width", f"local {n} is given sorts {sorted(map(str, ss))}")
        return self.problems

    # -- pure
    def need_bv(self, s, what, rule="bv_operand"):
        if s is None:
            return None
        if s[0] != BV:
            self.prob(rule, f"{what}: expected bitvector, got {s[0]}")
            return None
        return s

    def need_bool(self, s, what, rule="bool_operand"):
        if s is None:
            return None
        if s[0] != BOOL:
            self.prob(rule, f"{what}: expected bool, got {s}")
            return None
        return s

    def cn(self, t):
        try:
            return cnum(t, None, None)
        except ILTypeError as e:
            self.prob("c_constant", str(e))
            return None
        except Unmodelled:
            return None

    def pure(self, t, penv, lets):
        key = (id(t), id(penv), lets)
        if key in self._memo:
            return self._memo[key]
        r = self._pure(t, penv, lets)
        self._memo[key] = r
        return r

    def _pure(self, t, penv, lets):
        self.nodes += 1
        op = t[0]
        self.ops[op] = self.ops.get(op, 0) + 1
        P = lambda x: self.pure(x, penv, lets)  # noqa
        if op == "id":
            n = t[1]
            if n in ("IL_TRUE", "IL_FALSE"):
                return (BOOL,)
            if penv is not None and n in penv:
                tt, pe = penv[n]
                return self.pure(tt, pe, lets)
            self.prob("free_identifier", f"identifier {n} used as a pure")
            return None
        if op in ("SN", "UN"):
            w = self.cn(t[1])
            if len(t) != 3:
                self.prob("arity", f"{op} with {len(t) - 1} args")
                return None
            c = t[2]
            if c[0] == "fnum":
                self.prob("c_constant", f"{op}({w}, {c[1]}): floating constant")
            elif c[0] == "num" and not (-(1 << 63) <= c[1] < (1 << 64)):
                self.prob("c_constant", f"{op}({w}, {c[1]:#x}): constant exceeds 64 bits")
            if not isinstance(w, int) or w <= 0:
                self.prob("c_constant", f"{op} width {w}")
                return None
            return (BV, w)
        if op in ("U8", "U16", "U32", "U64", "S8", "S16", "S32", "S64"):
            return (BV, int(op[1:]))
        if op == "VARL":
            n = t[1][1]
            if n in self.locals:
                return self.locals[n]
            if self._final:
                if n not in self.setl_names:
                    self.prob("local_defined", f"VARL({n}) but no SETL of {n} exists in the effect")
                else:
                    self.prob("local_defined", f"sort of local {n} cannot be determined")
            return None
        if op == "VARLP":
            n = t[1][1]
            for k, v in reversed(lets):
                if k == n:
                    return v
            self.prob("let_scope", f"VARLP({n}) outside the LET that binds it")
            return None
        if op == "LET":
            v = P(t[2])
            return self.pure(t[3], penv, lets + ((t[1][1], v),))
        if op == "READ_REG":
            try:
                return (BV, hwidth(handle_of(t[2], penv), self.slotw))
            except Unmodelled as e:
                self.unknown.append(str(e))
                return None
        if op == "CAST":
            w = self.cn(t[1])
            self.need_bool(P(t[2]), "CAST fill", "cast_operands")
            self.need_bv(P(t[3]), "CAST value", "cast_operands")
            return (BV, w) if isinstance(w, int) and w > 0 else None
        if op in ("SIGNED", "UNSIGNED"):
            w = self.cn(t[1])
            self.need_bv(P(t[2]), op, "cast_operands")
            return (BV, w) if isinstance(w, int) and w > 0 else None
        if op in ("MSB", "LSB", "NON_ZERO", "IS_ZERO"):
            self.need_bv(P(t[1]), op, "cast_operands" if op in ("MSB", "NON_ZERO") else "bv_operand")
            return (BOOL,)
        if op in ("ADD", "SUB", "MUL", "DIV", "MOD", "SDIV", "SMOD", "LOGAND", "LOGOR", "LOGXOR"):
            a = self.need_bv(P(t[1]), op)
            b = self.need_bv(P(t[2]), op)
            if a and b and a[1] != b[1]:
                self.prob("equal_width", f"{op}: widths {a[1]} vs {b[1]}")
            return a or b
        if op in ("LOGNOT", "NEG"):
            return self.need_bv(P(t[1]), op)
        if op in ("INC", "DEC"):
            a = self.need_bv(P(t[1]), op)
            w = self.cn(t[2])
            if a and w != a[1]:
                self.prob("equal_width", f"{op} width argument {w} on a {a[1]}-bit value")
            return a
        if op in ("SHIFTL0", "SHIFTR0", "SHIFTRA"):
            a = self.need_bv(P(t[1]), op)
            self.need_bv(P(t[2]), op + " amount")
            return a
        if op in ("EQ", "ULT", "ULE", "UGT", "UGE", "SLT", "SLE", "SGT", "SGE"):
            a = self.need_bv(P(t[1]), op)
            b = self.need_bv(P(t[2]), op)
            if a and b and a[1] != b[1]:
                self.prob("equal_width", f"{op}: widths {a[1]} vs {b[1]}")
            return (BOOL,)
        if op in ("AND", "OR", "XOR"):
            self.need_bool(P(t[1]), op)
            self.need_bool(P(t[2]), op)
            return (BOOL,)
        if op == "INV":
            self.need_bool(P(t[1]), op)
            return (BOOL,)
        if op == "ITE":
            self.need_bool(P(t[1]), "ITE condition", "condition_bool")
            a = P(t[2])
            b = P(t[3])
            if a is not None and b is not None and a != b:
                self.prob("ite_arms", f"ITE arms have sorts {a} and {b}")
            return a or b
        if op == "LOADW":
            n = self.cn(t[1])
            a = self.need_bv(P(t[2]), "LOADW address")
            if a and a[1] != 32:
                self.prob("address_width", f"LOADW address is {a[1]} bits")
            return (BV, n) if isinstance(n, int) and n > 0 else None
        if op in ("EXTRACT64", "EXTRACT32", "SEXTRACT64"):
            W = 32 if op == "EXTRACT32" else 64
            v = self.need_bv(P(t[1]), op)
            s = self.need_bv(P(t[2]), op)
            l = self.need_bv(P(t[3]), op)
            if v and v[1] != W:
                self.prob("macro_arg_width", f"{op} value is {v[1]} bits")
            for x, nm in ((s, "start"), (l, "length")):
                if x and x[1] != 32:
                    self.prob("macro_arg_width", f"{op} {nm} is {x[1]} bits")
            return (BV, W)
        if op in ("DEPOSIT64", "DEPOSIT32"):
            W = 64 if op == "DEPOSIT64" else 32
            v = self.need_bv(P(t[1]), op)
            s = self.need_bv(P(t[2]), op)
            l = self.need_bv(P(t[3]), op)
            f = self.need_bv(P(t[4]), op)
            for x, nm, ww in ((v, "value", W), (f, "field", W), (s, "start", 32), (l, "length", 32)):
                if x and x[1] != ww:
                    self.prob("macro_arg_width", f"{op} {nm} is {x[1]} bits")
            return (BV, W)
        if op in ("BSWAP16", "BSWAP32", "BSWAP64"):
            W = int(op[5:])
            v = self.need_bv(P(t[1]), op)
            if v and v[1] != W:
                self.prob("macro_arg_width", f"{op} on {v[1]} bits")
            return (BV, W)
        if op == "HEX_REGFIELD":
            return (BV, 32)
        if op == "HEX_GET_CORRESPONDING_CS":
            return (BV, 32)
        if op == "BV2F":
            fmt = t[1][1] if t[1][0] == "id" else None
            v = self.need_bv(P(t[2]), "BV2F")
            if fmt in FMTW and v and v[1] != FMTW[fmt]:
                self.prob("float_width", f"BV2F({fmt}) of a {v[1]}-bit value")
            return (FLOAT, fmt)
        if op == "F2BV":
            a = P(t[1])
            if a is not None and a[0] != FLOAT:
                self.prob("float_operand", f"F2BV of {a}")
                return None
            return (BV, FMTW.get(a[1], 0)) if a and a[1] in FMTW else None
        if op in ("FADD", "FSUB", "FMUL", "FDIV"):
            a, b = P(t[2]), P(t[3])
            for x in (a, b):
                if x is not None and x[0] != FLOAT:
                    self.prob("float_operand", f"{op} of {x}")
            if a and b and a != b:
                self.prob("float_operand", f"{op} formats {a} vs {b}")
            return a or b
        if op in ("FEQ", "FLT", "FLE", "FGT", "FGE", "FNEQ"):
            a, b = P(t[1]), P(t[2])
            for x in (a, b):
                if x is not None and x[0] != FLOAT:
                    self.prob("float_operand", f"{op} of {x}")
            return (BOOL,)
        if op in ("HEX_D_TO_INT", "HEX_D_TO_SINT", "HEX_F_TO_INT", "HEX_F_TO_SINT"):
            a = P(t[2])
            want = (FLOAT, "RZ_FLOAT_IEEE754_BIN_64" if "_D_" in op else "RZ_FLOAT_IEEE754_BIN_32")
            if a is not None and a != want:
                self.prob("float_operand", f"{op} of {a}")
            return (BV, 64)
        if op in ("HEX_INT_TO_D", "HEX_SINT_TO_D", "HEX_INT_TO_F", "HEX_SINT_TO_F"):
            a = self.need_bv(P(t[2]), op)
            if a and a[1] != 64:
                self.prob("macro_arg_width", f"{op} of a {a[1]}-bit value")
            return (FLOAT, "RZ_FLOAT_IEEE754_BIN_64" if op.endswith("_D") else "RZ_FLOAT_IEEE754_BIN_32")
        if op == "IS_INF":
            P(t[1])
            return (BOOL,)
        if op in EFFECT_OPS or op.startswith("hex_"):
            self.prob("effect_as_pure", f"effect {op} used where a pure is required")
            return None
        self.unknown.append(f"pure op {op}")
        return None

    # -- effects
    def set_local(self, n, s):
        self.setl_names.add(n)
        if s is None:
            return
        old = self.locals.get(n)
        if old is None:
            self.locals[n] = s
            self.changed = True
        elif old != s:
            self.local_conflicts.setdefault(n, {old}).add(s)

    def effect(self, t, penv, stack):
        self.nodes += 1
        op = t[0]
        self.ops[op] = self.ops.get(op, 0) + 1
        if op in ("NOP", "EMPTY"):
            return
        if op == "SETL":
            s = self.pure(t[2], penv, ())
            if s is not None and s[0] == EFFECT:
                self.prob("effect_as_pure", "SETL of an effect")
            self.set_local(t[1][1], s)
            return
        if op == "WRITE_REG":
            v = self.need_bv(self.pure(t[3], penv, ()), "WRITE_REG value", "write_width")
            try:
                w = hwidth(handle_of(t[2], penv), self.slotw)
                if v and v[1] != w:
                    self.prob("write_width", f"WRITE_REG of a {v[1]}-bit value into {w}-bit {hkey(handle_of(t[2], penv))}")
            except Unmodelled as e:
                self.unknown.append(str(e))
            return
        if op == "STOREW":
            a = self.need_bv(self.pure(t[1], penv, ()), "STOREW address")
            self.need_bv(self.pure(t[2], penv, ()), "STOREW value", "write_width")
            if a and a[1] != 32:
                self.prob("address_width", f"STOREW address is {a[1]} bits")
            return
        if op in ("SEQN", "SEQ2", "SEQ3", "SEQ4", "SEQ5", "SEQ6", "SEQ7", "SEQ8"):
            args = t[1:]
            if op == "SEQN":
                n = self.cn(t[1])
                args = t[2:]
                if n != len(args):
                    self.prob("seqn_count", f"SEQN count {n} with {len(args)} effects")
            elif int(op[3:]) != len(args):
                self.prob("seqn_count", f"{op} with {len(args)} effects")
            for a in args:
                self.effect_arg(a, penv, stack)
            return
        if op == "BRANCH":
            self.need_bool(self.pure(t[1], penv, ()), "BRANCH condition", "condition_bool")
            self.effect_arg(t[2], penv, stack)
            self.effect_arg(t[3], penv, stack)
            return
        if op == "REPEAT":
            self.need_bool(self.pure(t[1], penv, ()), "REPEAT condition", "condition_bool")
            self.effect_arg(t[2], penv, stack)
            return
        if op == "HEX_STORE_SLOT_CANCELLED":
            return
        if op == "HEX_GET_NPC":
            self.set_local("ret_val", (BV, 64))
            return
        if op.startswith("hex_"):
            name = op[4:]
            if name not in self.subs:
                self.unknown.append(f"sub-routine {name}")
                return
            if name in stack:
                self.unknown.append(f"recursive sub-routine {name}")
                return
            sub = self.subs[name]
            if len(sub.params) != len(t) - 1:
                self.prob("call_arity", f"{op} called with {len(t) - 1} arguments, defined with {len(sub.params)}")
                return
            new_env = {}
            for k, ((kind, pn, _), a) in enumerate(zip(sub.params, t[1:])):
                new_env[pn] = (a, penv)
                pw = sub.param_width(k)
                if kind == "pure" and pw is not None:
                    s = self.pure(a, penv, ())
                    if s is not None and s != (BV, pw):
                        self.prob("call_arg_width", f"{op}: argument {k} ({pn}) has sort {s}, parameter is {pw} bits")
            self.effect(sub.term, new_env, stack + (name,))
            return
        if op in PURE_OPS or op == "id":
            self.prob("pure_as_effect", f"{op} used where an effect is required")
            return
        self.unknown.append(f"effect op {op}")

    def effect_arg(self, a, penv, stack):
        self.effect(a, penv, stack)


def check_sorts(term, slotw, subs) -> SortChecker:
    sc = SortChecker(slotw, subs)
    sc.run(term)
    return sc


# --------------------------------------------------------------------------- (e) evaluator
class Machine:
    """state: st = {old:{hkey:v}, new:{hkey:v}, imm:{letter:v}, pc, npc, cs, memseed}"""

    def __init__(self, st, slotw, subs, repair=()):
        self.st = st
        self.slotw = slotw
        self.subs = subs
        self.repair = set(repair)
        self.written = {}
        self.locals = {}
        self.mem = {}
        self.cancelled = 0
        self.steps = 0
        self.cov = {}  # (kind, id(node)) -> set of outcomes
        self.ops = set()
        self.hyb_reads = 0
        self.calls = 0
        self.kf_used = set()

    def read_reg(self, h):
        k = hkey(h)
        w = hwidth(h, self.slotw)
        if k in self.written:
            return ("bv", w, self.written[k] & mask(w))
        bank = self.st["new"] if h[-1] else self.st["old"]
        if k not in bank:
            raise Unmodelled(f"no state for {k}")
        return ("bv", w, bank[k] & mask(w))

    def write_reg(self, h, v):
        if v[0] != "bv":
            raise ILTypeError(f"WRITE_REG with {v[0]}")
        w = hwidth(h, self.slotw)
        if v[1] != w:
            raise ILTypeError(f"WRITE_REG width {v[1]} into {w}-bit {hkey(h)}")
        self.written[hkey(h)] = v[2]

    def load(self, addr, n):
        v = 0
        for i in range(n // 8):
            a = (addr + i) & 0xFFFFFFFF
            b = self.mem.get(a)
            if b is None:
                b = mix(self.st["memseed"], a)
            v |= b << (8 * i)
        return v

    def store(self, addr, n, v):
        for i in range(n // 8):
            self.mem[(addr + i) & 0xFFFFFFFF] = (v >> (8 * i)) & 0xFF


def bv(w, v):
    return ("bv", w, v & mask(w))


def need_bv(x, what=""):
    if x[0] != "bv":
        raise ILTypeError(f"{what}: expected bitvector got {x[0]}")
    return x


def need_bool(x, what=""):
    if x[0] != "bool":
        raise ILTypeError(f"{what}: expected bool got {x[0]}")
    return x


def same_w(a, b, what):
    need_bv(a, what)
    need_bv(b, what)
    if a[1] != b[1]:
        raise ILTypeError(f"{what}: widths {a[1]} vs {b[1]}")


import struct


def _f_from_bits(fmt, bits):
    if fmt == "RZ_FLOAT_IEEE754_BIN_32":
        return struct.unpack("<f", struct.pack("<I", bits & 0xFFFFFFFF))[0]
    return struct.unpack("<d", struct.pack("<Q", bits & mask(64)))[0]


def _f_to_bits(fmt, x):
    if fmt == "RZ_FLOAT_IEEE754_BIN_32":
        return struct.unpack("<I", struct.pack("<f", x))[0]
    return struct.unpack("<Q", struct.pack("<d", x))[0]


def _f_finite(a, allow_subnormal=False):
    """python float of a ('float', fmt, bits) value; NaN / infinity / subnormals are outside the model"""
    import math

    x = _f_from_bits(a[1], a[2])
    if math.isnan(x) or math.isinf(x):
        raise Unmodelled("float NaN/inf")
    if x != 0.0 and not allow_subnormal:
        tiny = 1.1754943508222875e-38 if a[1].endswith("32") else 2.2250738585072014e-308
        if abs(x) < tiny:
            raise Unmodelled("float subnormal")
    return x


def _f_result(fmt, r, exact=False):
    import math

    if exact:
        # r is a Fraction: round once to the target format
        if fmt.endswith("32"):
            import numbers

            f = float(r)  # correctly rounded to double (python guarantees round-half-even)
            # double rounding can differ from a single rounding only on exact ties of the float32 grid
            bits = struct.unpack("<I", struct.pack("<f", f))[0]
            back = struct.unpack("<f", struct.pack("<I", bits))[0]
            import fractions

            if fractions.Fraction(f) != r:
                # value was inexact in double: check that the float32 neighbour choice is unambiguous
                lo = struct.unpack("<f", struct.pack("<I", bits - 1 if bits & 0x7FFFFFFF else bits))[0]
                hi = struct.unpack("<f", struct.pack("<I", bits + 1))[0]
                for nb in (lo, hi):
                    if abs(fractions.Fraction(nb) - r) == abs(fractions.Fraction(back) - r):
                        raise Unmodelled("float tie under double rounding")
            return ("float", fmt, bits)
        r = float(r)
    if math.isnan(r) or math.isinf(r):
        raise Unmodelled("float overflow")
    if fmt.endswith("32"):
        try:
            bits = struct.unpack("<I", struct.pack("<f", r))[0]
        except OverflowError:
            raise Unmodelled("float32 overflow")
        back = struct.unpack("<f", struct.pack("<I", bits))[0]
        if math.isinf(back) or (back != 0.0 and abs(back) < 1.1754943508222875e-38) or (back == 0.0 and r != 0.0):
            raise Unmodelled("float32 overflow/underflow")
        return ("float", fmt, bits)
    if r != 0.0 and abs(r) < 2.2250738585072014e-308:
        raise Unmodelled("double underflow")
    return ("float", fmt, _f_to_bits(fmt, r))


class Ev:
    STEP_BUDGET = 2_000_000
    LOOP_BUDGET = 10_000

    def __init__(self, m: Machine):
        self.m = m

    def num(self, t, penv):
        v = cnum(t, self.m.st["imm"], self.m.st["pc"])
        if v is None:
            raise Unmodelled("constant")
        return v

    def pure(self, t, penv, lets):
        m = self.m
        op = t[0]
        m.steps += 1
        if m.steps > self.STEP_BUDGET:
            raise Unmodelled("step budget")
        P = self.pure
        if op == "id":
            n = t[1]
            if n == "IL_TRUE":
                return ("bool", True)
            if n == "IL_FALSE":
                return ("bool", False)
            if penv is not None and n in penv:
                tt, pe = penv[n]
                return P(tt, pe, lets)
            raise Unmodelled(f"free identifier {n}")
        if op == "SN" or op == "UN":
            return bv(self.num(t[1], penv), self.num(t[2], penv))
        if op == "VARL":
            n = t[1][1]
            if n not in m.locals:
                raise DefUseError(n)
            if n.startswith("h_tmp"):
                m.hyb_reads += 1
            return m.locals[n]
        if op == "VARLP":
            n = t[1][1]
            for k, v in reversed(lets):
                if k == n:
                    return v
            raise ILTypeError(f"VARLP {n} not bound")
        if op == "LET":
            v = P(t[2], penv, lets)
            return P(t[3], penv, lets + [(t[1][1], v)])
        if op == "READ_REG":
            return m.read_reg(handle_of(t[2], penv)[:-1] + (t[3] == ("id", "true"),))
        if op == "CAST" or op.startswith("CAST_KF_"):
            w = self.num(t[1], penv)
            f = need_bool(P(t[2], penv, lets), "CAST fill")
            x = need_bv(P(t[3], penv, lets), "CAST")
            if w <= x[1]:
                return bv(w, x[2])
            fill = f[1]
            if op != "CAST":
                mech = op[len("CAST_KF_"):]
                if mech in m.repair:
                    m.kf_used.add(mech)
                    fill = bool(x[2] >> (x[1] - 1))
            v = x[2]
            if fill:
                v |= mask(w) & ~mask(x[1])
            return bv(w, v)
        if op == "SIGNED" or op == "UNSIGNED":
            w = self.num(t[1], penv)
            x = need_bv(P(t[2], penv, lets), op)
            if w <= x[1]:
                return bv(w, x[2])
            return bv(w, sx(x[1], x[2]) if op == "SIGNED" else x[2])
        if op == "MSB":
            x = need_bv(P(t[1], penv, lets), "MSB")
            return ("bool", bool(x[2] >> (x[1] - 1)))
        if op == "LSB":
            x = need_bv(P(t[1], penv, lets), "LSB")
            return ("bool", bool(x[2] & 1))
        if op == "NON_ZERO":
            x = need_bv(P(t[1], penv, lets), "NON_ZERO")
            return ("bool", x[2] != 0)
        if op == "IS_ZERO":
            x = need_bv(P(t[1], penv, lets), "IS_ZERO")
            return ("bool", x[2] == 0)
        if op in _ARITH or (op[:7] in ("DIV_KF_", "MOD_KF_")):
            a = P(t[1], penv, lets)
            b = P(t[2], penv, lets)
            same_w(a, b, op)
            w = a[1]
            x, y = a[2], b[2]
            m.ops.add(op)
            if "_KF_" in op:
                base, mech = op.split("_KF_")
                if mech in m.repair:
                    m.kf_used.add(mech)
                    op = "S" + base
                else:
                    op = base
            if op == "ADD":
                r = x + y
            elif op == "SUB":
                r = x - y
            elif op == "MUL":
                r = x * y
            elif op == "DIV":
                r = mask(w) if y == 0 else x // y
            elif op == "MOD":
                r = x if y == 0 else x % y
            elif op == "SDIV":
                if y == 0:
                    r = mask(w)
                else:
                    sx_, sy = sx(w, x), sx(w, y)
                    q = abs(sx_) // abs(sy)
                    r = q if (sx_ < 0) == (sy < 0) else -q
            elif op == "SMOD":
                if y == 0:
                    r = x
                else:
                    sx_, sy = sx(w, x), sx(w, y)
                    r = abs(sx_) % abs(sy)
                    r = -r if sx_ < 0 else r
            elif op == "LOGAND":
                r = x & y
            elif op == "LOGOR":
                r = x | y
            else:
                r = x ^ y
            return bv(w, r)
        if op == "LOGNOT" or op == "NEG":
            a = need_bv(P(t[1], penv, lets), op)
            return bv(a[1], ~a[2] if op == "LOGNOT" else -a[2])
        if op == "INC" or op == "DEC":
            a = need_bv(P(t[1], penv, lets), op)
            w = self.num(t[2], penv)
            if w != a[1]:
                raise ILTypeError(f"{op} width {w} on {a[1]}-bit value")
            return bv(a[1], a[2] + (1 if op == "INC" else -1))
        if op in ("SHIFTL0", "SHIFTR0", "SHIFTRA"):
            a = need_bv(P(t[1], penv, lets), op)
            b = need_bv(P(t[2], penv, lets), op)
            w, x, n = a[1], a[2], b[2]
            m.ops.add(op)
            if op == "SHIFTL0":
                return bv(w, 0 if n >= w else x << n)
            if op == "SHIFTR0":
                return bv(w, 0 if n >= w else x >> n)
            s = sx(w, x)
            return bv(w, (-1 if s < 0 else 0) if n >= w else s >> n)
        if op in _CMP:
            a = P(t[1], penv, lets)
            b = P(t[2], penv, lets)
            same_w(a, b, op)
            x, y = a[2], b[2]
            m.ops.add(op)
            if op[0] == "S":
                x, y = sx(a[1], x), sx(a[1], y)
            o = op if op == "EQ" else op[1:]
            if o == "EQ":
                r = x == y
            elif o == "LT":
                r = x < y
            elif o == "LE":
                r = x <= y
            elif o == "GT":
                r = x > y
            else:
                r = x >= y
            return ("bool", r)
        if op == "AND" or op == "OR" or op == "XOR":
            a = need_bool(P(t[1], penv, lets), op)
            b = need_bool(P(t[2], penv, lets), op)
            return ("bool", {"AND": a[1] and b[1], "OR": a[1] or b[1], "XOR": a[1] != b[1]}[op])
        if op == "INV":
            return ("bool", not need_bool(P(t[1], penv, lets), "INV")[1])
        if op == "ITE":
            c = need_bool(P(t[1], penv, lets), "ITE cond")
            m.cov.setdefault(("ITE", id(t)), set()).add(c[1])
            return P(t[2] if c[1] else t[3], penv, lets)
        if op == "LOADW":
            n = self.num(t[1], penv)
            a = need_bv(P(t[2], penv, lets), "LOADW")
            if a[1] != 32:
                raise ILTypeError(f"LOADW address is {a[1]} bits wide (memory keys are 32 bit)")
            return bv(n, m.load(a[2], n))
        if op in ("U8", "U16", "U32", "U64", "S8", "S16", "S32", "S64"):
            return bv(int(op[1:]), self.num(t[1], penv))
        if op in ("EXTRACT64", "EXTRACT32", "SEXTRACT64"):
            W = 32 if op == "EXTRACT32" else 64
            v = need_bv(P(t[1], penv, lets), op)
            s = need_bv(P(t[2], penv, lets), op)[2]
            l = need_bv(P(t[3], penv, lets), op)[2]
            if v[1] != W:
                raise ILTypeError(f"{op} on {v[1]}-bit value")
            s = sx(32, s)
            l = sx(32, l)
            if not (0 <= s and 0 < l and s + l <= W):
                raise Unmodelled(f"{op} range start={s} len={l}")
            r = (v[2] >> s) & mask(l)
            if op == "SEXTRACT64":
                r = sx(l, r)
            return bv(W, r)
        if op == "DEPOSIT64" or op == "DEPOSIT32":
            W = 64 if op == "DEPOSIT64" else 32
            v = need_bv(P(t[1], penv, lets), op)
            s = sx(32, need_bv(P(t[2], penv, lets), op)[2])
            l = sx(32, need_bv(P(t[3], penv, lets), op)[2])
            f = need_bv(P(t[4], penv, lets), op)
            if v[1] != W or f[1] != W:
                raise ILTypeError(f"{op} widths {v[1]},{f[1]}")
            if not (0 <= s and 0 < l and s + l <= W):
                raise Unmodelled(f"{op} range")
            mk = mask(l) << s
            return bv(W, (v[2] & ~mk) | ((f[2] << s) & mk))
        if op in ("BSWAP16", "BSWAP32", "BSWAP64"):
            W = int(op[5:])
            v = need_bv(P(t[1], penv, lets), op)
            if v[1] != W:
                raise ILTypeError(f"{op} on {v[1]} bits")
            return bv(W, int.from_bytes(v[2].to_bytes(W // 8, "little"), "big"))
        if op == "HEX_REGFIELD":
            prop = t[1][1]
            field = t[2]
            pe = penv
            while field[0] == "id" and pe is not None and field[1] in pe:
                field, pe = pe[field[1]]
            if field[1] not in REGFIELD:
                raise Unmodelled(f"register field {field[1]}")
            off, wid = REGFIELD[field[1]]
            return bv(32, wid if prop == "HEX_RF_WIDTH" else off)
        if op == "HEX_GET_CORRESPONDING_CS":
            return bv(32, m.st["cs"])
        if op == "BV2F":
            v = need_bv(P(t[2], penv, lets), op)
            fmt = t[1][1]
            if v[1] != FMTW.get(fmt):
                raise ILTypeError(f"BV2F({fmt}) of {v[1]} bits")
            return ("float", fmt, v[2])
        if op == "F2BV":
            a = P(t[1], penv, lets)
            if a[0] != "float":
                raise ILTypeError(f"F2BV of {a[0]}")
            return bv(FMTW[a[1]], a[2])
        if op in ("FADD", "FSUB", "FMUL"):
            self.rmode(t[1], penv)
            a = P(t[2], penv, lets)
            b = P(t[3], penv, lets)
            if a[0] != "float" or b[0] != "float" or a[1] != b[1]:
                raise ILTypeError(f"{op} of {a[:2]} and {b[:2]}")
            x, y = _f_finite(a), _f_finite(b)
            r = x + y if op == "FADD" else (x - y if op == "FSUB" else x * y)
            m.ops.add(op)
            return _f_result(a[1], r)
        if op in ("FEQ", "FLT", "FLE", "FGT", "FGE", "FNEQ"):
            a = P(t[1], penv, lets)
            b = P(t[2], penv, lets)
            if a[0] != "float" or b[0] != "float" or a[1] != b[1]:
                raise ILTypeError(f"{op} of {a[:2]} and {b[:2]}")
            x, y = _f_finite(a), _f_finite(b)
            m.ops.add(op)
            return ("bool", {"FEQ": x == y, "FLT": x < y, "FLE": x <= y, "FGT": x > y, "FGE": x >= y, "FNEQ": x != y}[op])
        if op in ("HEX_D_TO_INT", "HEX_D_TO_SINT", "HEX_F_TO_INT", "HEX_F_TO_SINT"):
            mode = self.rmode(t[1], penv)
            a = P(t[2], penv, lets)
            want = "RZ_FLOAT_IEEE754_BIN_64" if "_D_" in op else "RZ_FLOAT_IEEE754_BIN_32"
            if a[0] != "float" or a[1] != want:
                raise ILTypeError(f"{op} of {a[:2]}")
            x = _f_finite(a, allow_subnormal=True)
            import math

            r = math.trunc(x) if mode == 1 else round(x)
            if op.endswith("SINT"):
                if not (-(1 << 63) <= r < (1 << 63)):
                    raise Unmodelled("float to int out of range")
            elif not (0 <= r < (1 << 64)):
                raise Unmodelled("float to int out of range")
            m.ops.add(op)
            return bv(64, r)
        if op in ("HEX_INT_TO_D", "HEX_SINT_TO_D", "HEX_INT_TO_F", "HEX_SINT_TO_F"):
            self.rmode(t[1], penv)
            a = need_bv(P(t[2], penv, lets), op)
            if a[1] != 64:
                raise ILTypeError(f"{op} of {a[1]} bits")
            v = sx(64, a[2]) if "SINT" in op else a[2]
            fmt = "RZ_FLOAT_IEEE754_BIN_64" if op.endswith("_D") else "RZ_FLOAT_IEEE754_BIN_32"
            m.ops.add(op)
            if fmt.endswith("32"):
                # int -> float32 needs a single rounding; go through exact rational arithmetic
                import fractions

                return _f_result(fmt, fractions.Fraction(v), exact=True)
            return _f_result(fmt, float(v))
        raise Unmodelled(f"pure op {op}")

    def rmode(self, t, penv):
        """rounding mode argument: HEX_GET_INSN_RMODE(hi) (the instruction's default: nearest-even) or an enum constant"""
        if t[0] == "HEX_GET_INSN_RMODE":
            return 0
        if t[0] == "id" and t[1] == "RZ_FLOAT_RMODE_RNE":
            return 0
        if t[0] == "id" and t[1] == "RZ_FLOAT_RMODE_RTZ":
            return 1
        raise Unmodelled(f"rounding mode {t}")

    def effect(self, t, penv):
        m = self.m
        op = t[0]
        m.steps += 1
        if m.steps > self.STEP_BUDGET:
            raise Unmodelled("step budget")
        if op == "NOP" or op == "EMPTY":
            return
        if op == "SETL":
            v = self.pure(t[2], penv, [])
            n = t[1][1]
            old = m.locals.get(n)
            if old is not None and (old[0] != v[0] or (v[0] == "bv" and old[1] != v[1])):
                raise ILTypeError(f"local {n} changes sort {old[:2]} -> {v[:2]}")
            m.locals[n] = v
            return
        if op == "WRITE_REG":
            v = self.pure(t[3], penv, [])
            m.write_reg(handle_of(t[2], penv), v)
            return
        if op == "STOREW":
            a = need_bv(self.pure(t[1], penv, []), "STOREW addr")
            if a[1] != 32:
                raise ILTypeError(f"STOREW address is {a[1]} bits wide (memory keys are 32 bit)")
            v = need_bv(self.pure(t[2], penv, []), "STOREW val")
            m.store(a[2], v[1], v[2])
            return
        if op in _SEQ:
            args = t[1:]
            if op == "SEQN":
                n = self.num(t[1], penv)
                args = t[2:]
                if n != len(args):
                    raise ILTypeError(f"SEQN count {n} != {len(args)}")
            for a in args:
                self.effect(a, penv)
            return
        if op == "BRANCH":
            c = need_bool(self.pure(t[1], penv, []), "BRANCH cond")
            m.cov.setdefault(("BRANCH", id(t)), set()).add(c[1])
            self.effect(t[2] if c[1] else t[3], penv)
            return
        if op == "REPEAT":
            n = 0
            while need_bool(self.pure(t[1], penv, []), "REPEAT cond")[1]:
                self.effect(t[2], penv)
                n += 1
                if n > self.LOOP_BUDGET:
                    raise Unmodelled("loop budget")
            m.cov.setdefault(("REPEAT", id(t)), set()).add(min(n, 9))
            return
        if op == "HEX_STORE_SLOT_CANCELLED":
            m.cancelled = 1
            return
        if op == "HEX_GET_NPC":
            m.locals["ret_val"] = bv(64, m.st["npc"])
            return
        if op.startswith("hex_"):
            name = op[4:]
            if name not in m.subs:
                raise Unmodelled(f"sub-routine {name}")
            sub = m.subs[name]
            if len(sub.params) != len(t) - 1:
                raise ILTypeError(f"{op} arity")
            new_env = {}
            for (kind, pn, _), a in zip(sub.params, t[1:]):
                new_env[pn] = (a, penv)
            m.calls += 1
            self.effect(sub.term, new_env)
            return
        raise Unmodelled(f"effect op {op}")


_ARITH = {"ADD", "SUB", "MUL", "DIV", "MOD", "SDIV", "SMOD", "LOGAND", "LOGOR", "LOGXOR"}
_CMP = {"EQ", "ULT", "ULE", "UGT", "UGE", "SLT", "SLE", "SGT", "SGE"}
_SEQ = {"SEQN", "SEQ2", "SEQ3", "SEQ4", "SEQ5", "SEQ6", "SEQ7", "SEQ8"}


def count_arms(term, subs, _seen=None) -> int:
    """number of BRANCH/ITE/REPEAT nodes (for arm coverage denominators)"""
    n = 0
    for x in walk(term):
        if isinstance(x, tuple) and x and x[0] in ("BRANCH", "ITE", "REPEAT"):
            n += 1
    return n


def strip_kf(text: str) -> str:
    return re.sub(r"\b(CAST|DIV|MOD)_KF_\w+?\(", r"\1(", text)
