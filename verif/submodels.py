"""Reference models of the bundled sub-routines, written from what the routines mean in QEMU (target/hexagon: HELPER(fcircadd),
clz32/clo32/revbit* of qemu/host-utils.h and bitops.h, fBREV, conv_round of arch.c) - NOT from the C text in
Resources/Hexagon/sub_routines.json. C01 compares the executed C text of a routine with its model, so a routine text that is
translated faithfully but no longer says what the instruction behaviours that call it mean is noticed as well.

Every model is `f(args...) -> value | None` (None: outside the model's domain, e.g. a shift count C leaves undefined)."""

M32 = 0xFFFFFFFF
M64 = (1 << 64) - 1


def sx(w, v):
    v &= (1 << w) - 1
    return v - (1 << w) if v >> (w - 1) else v


def clz(w, v):
    v &= (1 << w) - 1
    return w - v.bit_length()


def clo(w, v):
    return clz(w, ~v)


def revbit(w, v):
    v &= (1 << w) - 1
    return int(format(v, f"0{w}b")[::-1], 2)


def fbrev(addr):
    return (addr & 0xFFFF0000) | revbit(16, addr & 0xFFFF)


def conv_round(a, n):
    """round-half-to-even of the signed 32-bit a / 2**n (arch.c conv_round)"""
    if not 0 <= n <= 31:
        return None
    a = sx(32, a)
    if n == 0:
        return a & M32
    q, r = divmod(a, 1 << n)
    half = 1 << (n - 1)
    if r > half or (r == half and (q & 1)):
        q += 1
    return q & M32


def fcirc_add(rx, offset, m, cs):
    """HELPER(fcircadd): -> new pointer (also written back to Rx)"""
    k_const = (m >> 24) & 0xF
    length = m & 0x1FFFF
    new_ptr = (rx + offset) & M32
    if k_const == 0 and length >= 4:
        start = cs & M32
        end = (start + length) & M32
    else:
        mask = (1 << (k_const + 2)) - 1
        start = rx & ~mask & M32
        end = start | length
    if new_ptr >= end:
        new_ptr = (new_ptr - length) & M32
    elif new_ptr < start:
        new_ptr = (new_ptr + length) & M32
    return new_ptr


def _val(ops, st, tok):
    for o, v in zip(ops, st["vals"]):
        if o.get("tok") == tok:
            return v
    raise KeyError(tok)


def wrapper_refs():
    """name of the C01 wrapper program -> ref_fn(ops, st) -> {observable token: expected final value} | None"""
    def one(dst, fn, *srcs):
        def ref(ops, st):
            v = fn(*[_val(ops, st, s) for s in srcs])
            return None if v is None else {dst: v}
        return ref

    def circ(ops, st):
        v = fcirc_add(_val(ops, st, "RxV"), _val(ops, st, "siV"), _val(ops, st, "MuV"), st["cs"])
        return {"RdV": v, "RxV": v}

    return {
        "sub:clz32": one("RdV", lambda s: clz(32, s), "RsV"),
        "sub:clz64": one("RddV", lambda s: clz(64, s), "RssV"),
        "sub:clo32": one("RdV", lambda s: clo(32, s), "RsV"),
        "sub:clo64": one("RddV", lambda s: clo(64, s), "RssV"),
        "sub:revbit16": one("RdV", lambda s: revbit(16, s), "RsV"),
        "sub:revbit32": one("RdV", lambda s: revbit(32, s), "RsV"),
        "sub:revbit64": one("RddV", lambda s: revbit(64, s), "RssV"),
        "sub:fbrev": one("RdV", fbrev, "RsV"),
        "sub:conv_round": one("RdV", conv_round, "RsV", "uiV"),
        "sub:fcirc_add": circ,
    }


def circ_states(rng, ops):
    """circular-buffer states: pointer a few bytes before / at / after the buffer end and start, modifier with K=0 and with the legacy
    K!=0 form, the increment taken from the immediate and from the I field of the modifier (<<0..3)"""
    from . import coracle as CO

    out = []
    for length in (4, 8, 16, 24, 100, 4096, 0x1FFFF, 3, 0):
        for d in (0, 1, 2, 4, 8, -1, -2, -4, -8, 16):
            for legacy in (False, True):
                st = CO.gen_state(rng, ops)
                start = (rng.getrandbits(32) & ~0x3FFFF) | 0x40000
                k_const = rng.randint(1, 15) if legacy else 0
                sh = rng.randint(0, 3)
                inc = abs(d) >> sh if d else rng.randint(0, 3)
                ifield = inc & 0x7FF
                m = (length & 0x1FFFF) | ((ifield & 0x7F) << 17) | (k_const << 24) | ((ifield >> 7) << 28)
                if legacy:
                    start &= ~((1 << (k_const + 2)) - 1)
                    end = start | length
                else:
                    end = start + length
                up = rng.random() < 0.7
                rx = (end - abs(d)) if (d >= 0 and up) else (start + abs(d))
                off = abs(d) if up else -abs(d) - (0 if d >= 0 else 1)
                st["cs"] = start & M32
                for k, o in enumerate(ops):
                    nv = None
                    if o["kind"] == "imm":
                        nv = off & M32
                        st["imm"][o["letter"]] = sx(32, nv) if o["signed"] else nv
                        st["vals"][k] = nv
                        continue
                    if o.get("tok", "").startswith("Rx"):
                        nv = rx & M32
                    elif o.get("tok", "").startswith("Mu"):
                        nv = m & M32
                    if nv is not None:
                        st[o["bank"]][o["key"]] = nv
                        if o["bank"] == "old":
                            st["new"][o["key"]] = nv
                for k, o in enumerate(ops):
                    if o["kind"] != "imm":
                        st["vals"][k] = st[o["bank"]][o["key"]] & ((1 << o["w"]) - 1)
                out.append(st)
    return out
