"""Workload shared by the per-output checks C10 (sorts), C11 (well-formed C + metadata), C12 (ownership):
every emitted text of corpus (sample or all), bundled sub-routine definitions and generated programs."""
import collections
import random

from . import common, corpus, gen, harness, outcheck
from . import ilfront as IL


def _sample(rng, pop, k):
    pop = list(pop)
    return rng.sample(pop, min(len(pop), max(0, int(k))))


def generated_items(seed, tier, bias, scale=1.0):
    """bias: 'sorts' | 'own' | 'wf' | 'layouts' - which constructs to stress"""
    rng = random.Random(seed)
    items = []
    n = int({"quick": 260, "thorough": 3000}[tier] * scale)
    avoid = ("const_cond",)
    g = gen.G(rng, avoid=avoid)
    for i in range(n):
        depth = rng.choice([1, 2, 2, 3])
        text, ex = g.program(depth=depth, nstmts=(1, 6))
        items.append(dict(name=f"gen{i}", text=text))
    # operator / conversion cells (narrow and wide operands, comparison and logical results mixed with arithmetic)
    ops = gen.ops_matrix()
    casts = gen.cast_matrix()
    k = int(120 * scale) if tier == "quick" else len(ops)
    for name, text in _sample(rng, ops, k):
        items.append(dict(name="op:" + name, text=text))
    k = int(60 * scale) if tier == "quick" else len(casts)
    for name, text in _sample(rng, casts, k):
        items.append(dict(name="cv:" + name, text=text))
    for name, text in casts:
        if name.startswith("bool") and not any(it["text"] == text for it in items):
            items.append(dict(name="cv:" + name, text=text))  # typed declarations / casts with a boolean source: always all of them
    calls = gen.cast_call_matrix()
    for it in _sample(rng, calls, int(24 * scale) if tier == "quick" else len(calls)):
        it = dict(it)
        it["name"] = "call:" + it["name"]
        items.append(it)
    # the directed families of C05/C06 (hybrids in arms, conditions, arguments, loops; unbraced arms; statement-expressions in both arms)
    for it in gen.hybrid_programs(random.Random(seed), 0):
        if tier == "thorough" or not it["name"].startswith("se;") or it["name"].startswith("se;bool") or rng.random() < 0.4:
            items.append(dict(name="hyb:" + it["name"], text=it["text"], subs=it.get("subs", [])))
    for c in ("(RsV > 5)", "(RsV + RtV)", "(RsV && RtV)", "RsV", "!RtV", "(clz32(RsV) > 3)"):
        items.append(dict(name=f"sethen:{c}", text=f"{{ RdV = {c} ? ({{ set_usr_field(bundle, HEX_REG_FIELD_USR_OVF, 1); 7; }}) : RsV; }}"))
        items.append(dict(name=f"seelse:{c}", text=f"{{ RdV = {c} ? RtV : ({{ set_usr_field(bundle, HEX_REG_FIELD_USR_OVF, 1); 7; }}); }}"))
        items.append(dict(name=f"seboth:{c}", text=f"{{ int32_t a = RtV; RdV = {c} ? ({{ a = a + 1; a; }}) : ({{ a = a - 1; 3; }}); ReV = a; }}"))
        items.append(dict(name=f"senest:{c}", text=f"{{ RdV = (RtV > 1) ? ({c} ? ({{ set_usr_field(bundle, HEX_REG_FIELD_USR_OVF, 1); 7; }}) : 2) : RsV; }}"))
    if bias in ("own", "wf", "sorts"):
        # every operand spelling (names with ':' and '_NEW', aliases, .new registers) in read, arithmetic, address and data position
        from .checks import c07

        sp = c07.spellings()
        for it in (sp if tier == "thorough" else _sample(rng, sp, int(140 * scale))):
            items.append(dict(name="sp:" + it["name"], text=it["text"]))
    if bias in ("own", "wf"):
        # constant folding that discards operands (C11/C12 quantifier)
        for it in gen.fold_programs(random.Random(seed), 12):
            if it["name"].startswith(("dead;", "cond;", "fold;", "foldc;", "fold2;", "foldu;", "foldu2;")):
                items.append(dict(name="fold:" + it["name"], text=it["text"]))
    if bias in ("own", "wf", "layouts"):
        # postfix ++/-- on registers (source, read-write, pair, predicate operands), first use / after a use / value unused
        for k, text in enumerate(["{ RdV = RsV++; }", "{ RsV--; RdV = RsV + RsV; }", "{ RdV = RsV; ReV = RsV++; }", "{ RxV++; RdV = RxV; }", "{ RddV = RssV++; ReV = 1; }", "{ RdV = RxV-- + RtV; }",
                                  "{ RsV++; }", "{ RdV = RsV + RtV; RtV--; ReV = RtV; }", "{ if (RsV++ > 0) { RdV = RsV; } else { RdV = RtV--; } }", "{ for (i = 0; i < 2; i++) { RxV++; } RdV = RxV; }"]):
            items.append(dict(name=f"postreg{k}", text=text))
    if bias == "own":
        # expression statements without effect (listed finding valueless_expression_statement) and compound shifts with converted operands
        for k, text in enumerate(["{ RsV + 1; RdV = RtV; }", "{ int32_t q = RsV; q * 2; RdV = q; }", "{ if (RsV) { RtV; } RdV = 1; }"]):
            items.append(dict(name=f"valueless{k}", text=text))
        for t in gen.TYPES:
            for op in ("<<=", ">>="):
                items.append(dict(name=f"cshift;{t};{op}", text=f"{{ {t} q = ({t}) RsV; q {op} (RsV > RtV); RddV = q; int32_t z = RtV; z {op} (q & 7); ReV = z; }}"))
        # heavy operand re-use
        for i in range(60 if tier == "quick" else 600):
            r = rng.choice(["RsV", "RtV", "RuuV", "uiV", "siV", "PwV"])
            e = r
            for _ in range(rng.randint(2, 6)):
                e = f"({e} {rng.choice(gen.BINOPS)} {rng.choice([r, r, 'RtV', '3'])})"
            items.append(dict(name=f"reuse{i}", text=f"{{ int32_t q = {r}; RddV = {e} + q + q; if ({r} > q) {{ ReV = q + {r}; }} }}"))
    # registered routines whose bodies need the packet / instruction handles only through member access (slot cancel, PC alias, new-value reads)
    items.append(dict(name="subhandles0", text="{ sr_cancel(bundle, RsV); RdV = sr_pc(bundle, RtV) + sr_npc(bundle); }", subs=[
        ("sr_cancel", "void", ["HexInsnPktBundle *bundle", "uint32_t val"], "{ if (val == 0) { STORE_SLOT_CANCELLED(pkt, 1); } }"),
        ("sr_pc", "uint32_t", ["HexInsnPktBundle *bundle", "uint32_t val"], "{ return HEX_REG_ALIAS_PC + val; }"),
        ("sr_npc", "uint32_t", ["HexInsnPktBundle *bundle"], "{ return get_npc(pkt) + 4; }")]))
    items.append(dict(name="subhandles1", text="{ RdV = sr_usr(bundle) + sr_lr(bundle, RsV); }", subs=[
        ("sr_usr", "uint32_t", ["HexInsnPktBundle *bundle"], "{ return get_usr_field(bundle, HEX_REG_FIELD_USR_OVF) + HEX_REG_ALIAS_USR; }"),
        ("sr_lr", "uint32_t", ["HexInsnPktBundle *bundle", "uint32_t v"], "{ HEX_REG_ALIAS_LR = v; return HEX_REG_ALIAS_LR_NEW + P0_NEW; }")]))
    # truth values (comparison / logical results) on BOTH sides of every binary operator
    for op in ("==", "!=", "<", ">", "<=", ">=", "+", "-", "*", "&", "|", "^", "<<", ">>", "&&", "||"):
        items.append(dict(name=f"boolbool;{op}", text=f"{{ RdV = (RsV < 0) {op} (RtV < 0); ReV = (RsV && RtV) {op} (RuV || RtV); RxV = (!RsV) {op} (RtV == RuV); }}"))
    # compound assignments with literal right operands (powers of two and others) on locals of four types and on registers
    for t in ("uint32_t", "uint64_t", "int32_t", "uint8_t"):
        for op in ("+=", "-=", "*=", "/=", "%=", "&=", "|=", "^=", "<<=", ">>="):
            for lit in ("8", "6"):
                items.append(dict(name=f"cmplit;{t};{op};{lit}", text=f"{{ {t} q = ({t}) RsV; q {op} {lit}; RddV = q; EA = RtV; EA {op} {lit}; ReV = EA; }}"))
    if bias != "sorts":
        # chained assignments: every link is an effect that has to be declared before the sequence that uses it
        for name, text in _sample(rng, gen.chained_assignments(random.Random(seed + 5), False), 24 if tier == "quick" else 120):
            items.append(dict(name="chain:" + name, text=text))
        for k, text in enumerate(["{ RddV = ReV = RsV; }", "{ int64_t a; int32_t b; a = b = RsV; RddV = a; }", "{ int32_t p0; int32_t p1; p0 = p1 = 0; RdV = p0 + p1; }", "{ if (RsV) { ReV = RxV = RtV; } }"]):
            items.append(dict(name=f"chainreg{k}", text=text))
    if bias == "sorts":
        # a name declared twice with different types (listed finding flat_local_namespace) and, as controls, with the same type
        for k, text in enumerate(["{ { int8_t t = RsV; RdV = t; } { uint32_t t = RtV; ReV = t >> 4; } }",
                                  "{ { int32_t t = RsV; RdV = t; } { int32_t t = RtV; ReV = t; } }", "{ int32_t t = RsV; if (RtV) { int32_t t = 5; RdV = t; } ReV = t; }"]):
            items.append(dict(name=f"redecl{k}", text=text))
        for name, text in _sample(rng, gen.chained_assignments(rng, False), 40 if tier == "quick" else 200):
            items.append(dict(name="chain:" + name, text=text))
        for k, text in enumerate(["{ RddV = ReV = RsV; }", "{ int64_t a; int32_t b; a = b = RsV; RddV = a; }", "{ ReV = PdV = RsV; }", "{ int8_t a; uint64_t b; RyyV = b = a = RsV; }"]):
            items.append(dict(name=f"chainreg{k}", text=text))
        for i in range(60 if tier == "quick" else 600):
            t = rng.choice(gen.TYPES)
            op = rng.choice(["+=", "-=", "*=", "&=", "|=", "^=", "<<=", ">>="])
            items.append(dict(name=f"cmpd{i}", text=f"{{ {t} q = ({t}) RsV; q {op} (RtV & 7); RddV = q; ReV = (q < RtV) + (RsV && q) + !q; }}"))
    return items


class Outputs:
    def __init__(self):
        self.items = []  # dict(name, kind, src, rzil, sub_defs, sub_sigs, record)
        self.rejected = collections.Counter()
        self.rules = collections.Counter()
        self.insn_records = []  # compile results of accepted instructions
        self.compiled = 0


def collect(run, S, tier, bias, layouts=("rs",), corpus_n=160, gen_scale=1.0):
    out = Outputs()
    beh = S.behaviors
    names = corpus.stratified_sample(beh, corpus_n, run.seed) if tier == "quick" else sorted(beh)
    for layout in layouts:
        res = S.compile_insns(names, layout=layout)
        for nm, r in zip(names, res):
            out.compiled += 1
            if r.get("timeout") or r.get("harness_error"):
                run.note_inconclusive(f"{nm}: {r.get('harness_error', 'timeout')}"[:160])
                continue
            for k, v in r.get("trace", {}).get("rules", {}).items():
                out.rules[k] += v
            if not r.get("ok"):
                out.rejected[f"{r['exc'].get('stage')}:{r['exc'].get('inner')}"] += 1
                continue
            r["layout"] = layout
            r["src_name"] = nm
            out.insn_records.append(r)
            for i, (b, z) in enumerate(zip(beh[nm], r["rzil"])):
                out.items.append(dict(name=f"{nm}#{i}@{layout}", kind="corpus", src=b, rzil=z, layout=layout, vkey=nm))
    for n, d in S.base_defs.items():
        out.items.append(dict(name=f"subdef:{n}", kind="subdef", src="", rzil=d, vkey="subdef:" + n))
    gi = generated_items(run.seed, tier, bias, gen_scale)
    for layout in layouts:
        cases = [dict(text=it["text"], layout=layout, subs=it.get("subs", [])) for it in gi]
        res = S.compile_stmts(cases)
        for it, r in zip(gi, res):
            out.compiled += 1
            if r.get("timeout") or r.get("harness_error"):
                run.note_inconclusive(f"{it['name']}: {r.get('harness_error', 'timeout')}"[:160])
                continue
            for k, v in r.get("trace", {}).get("rules", {}).items():
                out.rules[k] += v
            if not r.get("ok"):
                out.rejected[f"stmt:{r['exc'].get('inner')}"] += 1
                continue
            fam = it["name"].split(":")[0].rstrip("0123456789")
            out.items.append(dict(name=f"{it['name']}@{layout}", kind="generated", src=it["text"], rzil=r["rzil"], layout=layout,
                                  sub_defs=r.get("sub_defs"), sub_sigs=r.get("sub_sigs"), vkey=f"gen:{fam}", subs=it.get("subs", [])))
            for n, d in (r.get("sub_defs") or {}).items():
                out.items.append(dict(name=f"subdef:{n}@{layout}", kind="subdef", src="", rzil=d, vkey="gensubdef", sub_defs=r.get("sub_defs"), sub_sigs=r.get("sub_sigs")))
    return out


def run_checks(S, items):
    """-> list of outcheck result dicts (parallel)"""
    def work(it):
        subs = S.subs_for(it.get("sub_defs"), it.get("sub_sigs"))
        if it["kind"] == "subdef":
            name = it["name"].split(":")[1].split("@")[0]
            r = outcheck.check_sub_def(name, it["rzil"], subs)
            # sorts of the body stand-alone: parameters become typed placeholders
            try:
                sub = subs.get(name)
                if sub is not None and sub.sig:
                    penv = {}
                    for (kind, pn, _), (n2, k2, s2, w2) in zip(sub.params, sub.sig["params"]):
                        if kind == "pure" and w2:
                            penv[pn] = (("UN", ("num", w2, ""), ("num", 0, "")), None)
                        else:
                            penv[pn] = (("ISA2REG", ("id", "hi"), ("chr", "x"), ("id", "false")), None)
                    sc = IL.SortChecker({"x": 32}, subs)
                    sc.run_with_env(sub.term, penv)
                    r["sorts"] = sc.problems
                    r["nodes"] = sc.nodes
                    r["ops"] = sc.ops
                    r["unknown"] = sc.unknown[:5]
            except IL.ILSyntaxError as e:
                r["syntax"] = str(e)
            return r
        return outcheck.check_output(it["src"], it["rzil"], subs)

    return harness.pmap(work, items)
