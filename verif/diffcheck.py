"""Shared runner for the differential checks: compile (fork per case) -> C oracle vs IL
evaluator -> attribution of disagreements to listed known findings -> violations with replay."""
import collections
import json

from . import common, ctype, findings
from . import diff as D
from . import ilfront as IL


def cast_contract(events):
    """C03 contract on Cast.il_exec events -> list of (kind, event)."""
    out = []
    for ss, sw, ds, dw, txt in events:
        if dw <= sw:
            continue
        fill_msb = txt.startswith(f"CAST({dw}, MSB(")
        fill_false = txt.startswith(f"CAST({dw}, IL_FALSE,")
        if ss and not fill_msb:
            out.append(("cast_sext" if not ds and fill_false else "cast_fill_missing", (ss, sw, ds, dw, txt)))
        elif not ss and not fill_false:
            out.append(("cast_fill_spurious", (ss, sw, ds, dw, txt)))
    return out


class Family:
    def __init__(self, run: common.Run, S, label: str):
        self.run = run
        self.S = S
        self.label = label
        self.stats = collections.Counter()
        self.rejected = collections.Counter()
        self.rules = collections.Counter()
        self.samples = []
        self.nontrivial = set()
        self.ops_seen = set()
        self.contract_evals = collections.Counter()
        self.arms = [0, 0]
        self.trips = set()
        self.info = {}

    def replay_witnesses(self, nstates=64):
        """Re-establish every listed open finding of this property that carries a source witness; the
        KNOWN-FINDING line is printed only for findings that still reproduce."""
        items = []
        for mech, e in self.run.findings.items():
            w = e.get("witness") or {}
            if w.get("kind", "differential") == "differential" and w.get("source"):
                subs = [(s[0], s[1], list(s[2]), s[3]) for s in w.get("subs", [])]
                items.append(dict(name=f"witness:{mech}", text=w["source"], exports=[tuple(x) for x in w.get("exports", [])], _mech=mech, subs=subs,
                                  c_subs={s[0]: {"return_type": s[1], "params": list(s[2]), "code": s[3]} for s in subs}))
        if not items:
            return
        progs, _ = self.compile(items)
        self.stats = collections.Counter()
        res = self.differential(progs, nstates)
        for p, r, status in res:
            mech = p.extra["item"]["_mech"]
            if not status.startswith("known:"):
                print(f"INFO property={self.run.prop} listed finding {mech} did not reproduce on its witness (status {status})")
        self.stats = collections.Counter()
        self.nontrivial = set()
        self.samples = []

    def compile(self, items):
        """items: dict(name, text, exports?, subs?, c_subs?, aged?, layout?). Returns (progs, accepted_items)."""
        cases = [dict(text=it["text"], layout=it.get("layout", "rs"), subs=it.get("subs", []), aged=it.get("aged", 0)) for it in items]
        res = self.S.compile_stmts(cases)
        progs, kept = [], []
        for it, r in zip(items, res):
            self.stats["generated"] += 1
            if r.get("timeout") or r.get("harness_error"):
                self.stats["harness_trouble"] += 1
                self.run.note_inconclusive(f"{it['name']}: {r.get('harness_error', 'timeout')}"[:200])
                continue
            tr = r.get("trace", {})
            for k, v in tr.get("rules", {}).items():
                self.rules[k] += v
            self.contract_evals["c11_cast"] += tr.get("c11", 0)
            self.contract_evals["promoted_type"] += tr.get("promo", 0)
            self.contract_evals["Cast.il_exec"] += len(tr.get("casts", ()))
            for cv in tr.get("contract_violations", ()):
                self.run.violation(f"contract {cv[0]} violated while compiling {it['text'][:80]}: {cv[1]}",
                                   {"kind": "contract", "contract": cv[0], "detail": cv[1], "item": it}, key="contract:" + cv[0])
            it["_trace"] = tr
            if not r.get("ok"):
                self.stats["rejected"] += 1
                e = r.get("exc", {})
                self.rejected[f"{e.get('inner')}: {str(e.get('msg'))[:50]}"] += 1
                it["_exc"] = e
                continue
            self.stats["accepted"] += 1
            p = D.Prog(it["name"], it["text"], r["rzil"], exports=it.get("exports", ()), c_subs=it.get("c_subs"),
                       il_sub_defs=r.get("sub_defs"), tag=it.get("tag"),
                       extra={"item": it, "meta": r.get("meta"), "sub_sigs": r.get("sub_sigs"), "states_fn": it.get("states_fn"), "nstates": it.get("nstates", None) or None})
            if p.extra["nstates"] is None:
                del p.extra["nstates"]
            progs.append(p)
            kept.append(it)
        return progs, kept

    def differential(self, progs, nstates, clang=False, nontrivial=None, key_of=None, deepen=False):
        """Runs the comparison, attributes failures, records violations. Returns list of (prog, result, status)
        with status in ok|known:<mech>|violation|inconclusive."""
        run = self.run
        results, info = self.S.differential(progs, nstates, seed=run.seed, clang_check=clang)
        self.info = info
        if info.get("oracle_error"):
            run.note_inconclusive("C oracle did not build: " + info["oracle_error"][-300:])
            return []
        if info.get("selftest_ok") is False:
            run.note_inconclusive(f"UB detector self-test failed: {info.get('selftest_failures')}")
            return []
        out = []
        failed = []
        for p, r in zip(progs, results):
            self.stats["evaluations"] += r.compared
            self.stats["ub_skipped"] += r.ub
            self.stats["unmodelled_execs"] += r.unmodelled
            self.stats["clang_mismatch"] += r.clang_mismatch
            self.ops_seen |= r.ops
            self.arms[0] += r.arms_seen
            self.arms[1] += r.arms_total
            self.trips |= r.trips
            v = r.verdict()
            if r.c_invalid:
                self.stats["c_invalid"] += 1
                run.note_inconclusive(f"{p.name}: source is not valid C for the oracle: {r.c_invalid}")
                out.append((p, r, "inconclusive"))
                continue
            if v == "ok":
                self.stats["programs_ok"] += 1
                if nontrivial is None or nontrivial(p, r):
                    self.nontrivial.add(key_of(p) if key_of else p.name)
                if len(self.samples) < 3 and r.changed:
                    self.samples.append({"source": p.src, "emitted_excerpt": p.rzil[-260:], "states_compared": r.compared, "ub_skipped": r.ub})
                out.append((p, r, "ok"))
            elif v == "none_compared":
                self.stats["none_compared"] += 1
                run.note_inconclusive(f"{p.name}: no defined comparable execution ({r.ub} undefined in C, {r.unmodelled} unmodelled {list(r.notes)[:2]})")
                out.append((p, r, "inconclusive"))
            else:
                failed.append((p, r))
        if failed:
            out.extend(self.attribute(failed, nstates))
        if deepen:
            # directed deepening: programs that agreed so far but left BRANCH/ITE arms untaken get more states from another stream
            again = [p for p, r, st in out if st == "ok" and r.arms_total and r.arms_seen < r.arms_total]
            if again:
                self.stats["deepened_programs"] += len(again)
                results2, _ = self.S.differential(again, nstates * 3, seed=run.seed + 7919)
                failed2 = []
                for p, r in zip(again, results2):
                    self.stats["evaluations"] += r.compared
                    self.stats["ub_skipped"] += r.ub
                    self.arms[0] += max(0, r.arms_seen - next(x[1].arms_seen for x in out if x[0] is p))
                    if r.verdict() in ("diff", "refdiff", "ilsort", "defuse", "ilsyntax"):
                        failed2.append((p, r))
                if failed2:
                    # states of the second stream are reproduced by the replay through the recorded seed offset
                    for p, r in failed2:
                        p.extra["seed_offset"] = 7919
                    out = [x for x in out if x[0] not in [f[0] for f in failed2]]
                    self.stats["programs_ok"] -= len(failed2)
                    saved = run.seed
                    run.seed = saved + 7919
                    try:
                        out.extend(self.attribute(failed2, nstates * 3))
                    finally:
                        run.seed = saved
        return out

    def attribute(self, failed, nstates):
        run = self.run
        out = []
        items = []
        for p, r in failed:
            it = dict(p.extra.get("item", {"text": p.src}))
            it["mark"] = True
            items.append(it)
        cases = [dict(text=it["text"], layout=it.get("layout", "rs"), subs=it.get("subs", []), aged=it.get("aged", 0), mark=True) for it in items]
        res = self.S.compile_stmts(cases)
        marked = []
        idx_map = []
        for k, ((p, r), cr) in enumerate(zip(failed, res)):
            if not cr.get("ok") or IL.strip_kf(cr["rzil"]) != p.rzil:
                continue
            msubs = cr.get("sub_defs") or {}
            if {n: IL.strip_kf(d) for n, d in msubs.items()} != (p.il_sub_defs or {}):
                continue
            if cr["rzil"] != p.rzil or msubs != (p.il_sub_defs or {}):
                marked.append(D.Prog(p.name, p.src, cr["rzil"], exports=p.exports, c_subs=p.c_subs, il_sub_defs=msubs,
                                     extra={k: v for k, v in p.extra.items() if k in ("states_fn", "nstates")}))
                idx_map.append(k)
        repaired = {}
        if marked:
            rr, _ = self.S.differential(marked, nstates, seed=run.seed, repair=findings.MECHANISMS)
            for k, r2 in zip(idx_map, rr):
                repaired[k] = r2
        for k, (p, r) in enumerate(failed):
            r2 = repaired.get(k)
            status = "violation"
            if r2 is not None and r2.verdict() == "ok" and r2.kf_used:
                mechs = sorted(r2.kf_used)
                if "cast_sext" in mechs:
                    # the blamed casts must be conversions signed -> wider unsigned that C itself performs in this source
                    ev = res[k].get("trace", {}).get("casts", ())
                    blamed = {(int(sw), int(dw)) for ss, sw, ds, dw, txt in ev if ss and not ds and int(dw) > int(sw) and txt.startswith(f"CAST({int(dw)}, IL_FALSE,")}
                    it = p.extra.get("item", {})
                    expected = ctype.sext_conversions(p.src, subs=[tuple(x) for x in it.get("subs", [])])
                    if expected is None or not blamed <= set(expected):
                        r.notes["attribution_refused"] = f"casts {sorted(blamed - set(expected or []))} (signed -> wider unsigned) are not conversions C performs in this source"
                        mechs = None
                if mechs and all(m in run.findings for m in mechs):
                    for m in mechs:
                        run.known(m, {"source": p.src, "first_failure": r.fail_states[:1]})
                    status = "known:" + ",".join(mechs)
                    self.stats["known_finding_programs"] += 1
            if status == "violation":
                # findings identified by their witness only: the failing program must be exactly the recorded witness
                for mech0, e in run.findings.items():
                    w = e.get("witness") or {}
                    if w.get("witness_only") and w.get("source") == p.src and run.known(mech0, {"source": p.src}):
                        status = "known:" + mech0
                        self.stats["known_finding_programs"] += 1
                        break
            if status == "violation":
                mech = findings.signature(p.src, r, subs=[tuple(x) for x in p.extra.get("item", {}).get("subs", [])])
                if mech and self.run.known(mech, {"source": p.src[:300], "differing_observables": sorted(r.diff_keys)}):
                    status = "known:" + mech
                    self.stats["known_finding_programs"] += 1
            if status == "violation":
                self.stats["violating_programs"] += 1
                self.report(p, r, r2)
            out.append((p, r, status))
        return out

    def report(self, p, r, r2=None):
        v = r.verdict()
        first = r.fail_states[0] if r.fail_states else None
        if v == "ilsyntax":
            summary = f"[{self.label}] emitted text is not a declaration list + return: {r.syntax}"
        elif v == "diff":
            summary = f"[{self.label}] IL and C disagree on {r.diff} of {r.compared} defined states for `{p.src[:120]}`: {first[2] if first else ''}"
        elif v == "refdiff":
            summary = f"[{self.label}] the bundled routine called by `{p.src[:100]}` disagrees with its reference model (expected, got) on {r.refdiff} of {r.refchecked} states: {first[2] if first else ''}"
        elif v == "ilsort":
            summary = f"[{self.label}] ill-sorted IL at run time for `{p.src[:120]}`: {first[2] if first else ''}"
        elif v == "defuse":
            summary = f"[{self.label}] local read before any write ({first[2] if first else ''}) for `{p.src[:120]}`"
        else:
            summary = f"[{self.label}] {v} for `{p.src[:120]}`"
        it = p.extra.get("item", {})
        replay = {"kind": v, "label": self.label, "name": p.name, "text": p.src, "exports": p.exports, "subs": it.get("subs", []),
                  "c_subs": p.c_subs, "aged": it.get("aged", 0), "layout": it.get("layout", "rs"), "emitted": p.rzil,
                  "failures": r.fail_states, "after_counterfactual_repair": (r2.verdict() if r2 else None), "notes": r.notes}
        key = None
        if it.get("vkey"):
            key = f"{self.label}:{it['vkey']}"
        self.run.violation(summary[:600], replay, key=key)

    def coverage(self):
        return {
            "programs_generated": self.stats["generated"], "programs_accepted": self.stats["accepted"], "programs_rejected": self.stats["rejected"],
            "rejections": dict(self.rejected.most_common(8)),
            "ub_skipped_executions": self.stats["ub_skipped"], "unmodelled_executions": self.stats["unmodelled_execs"],
            "programs_without_comparable_execution": self.stats["none_compared"],
            "branch_ite_arms_taken": self.arms[0], "branch_ite_arms_total": self.arms[1], "loop_trip_counts_seen": sorted(self.trips),
            "il_ops_executed": sorted(self.ops_seen), "contract_evaluations": dict(self.contract_evals),
            "grammar_rules_reached": len(self.rules), "ub_detector_selftest": self.info.get("selftest_ok"),
            "known_finding_programs": self.stats["known_finding_programs"], "violating_programs": self.stats["violating_programs"],
            "programs_deepened_for_untaken_arms": self.stats["deepened_programs"],
        }


def replay_prog(path, S=None):
    """Re-compile the recorded program in a pristine forked child and re-run the comparison on the same states."""
    from . import pipeline

    rp = json.load(open(path))
    S = S or pipeline.Session(layouts=(rp.get("layout", "rs"),))
    run = common.Run(rp["property"], "exploration", rp.get("tier", "quick"))
    run.seed = rp.get("seed", run.seed)
    fam = Family(run, S, rp.get("label", "replay"))
    it = dict(name=rp["name"], text=rp["text"], exports=[tuple(e) for e in rp.get("exports", [])], subs=[tuple(s) for s in rp.get("subs", [])],
              c_subs=rp.get("c_subs") or {}, aged=rp.get("aged", 0), layout=rp.get("layout", "rs"))
    progs, _ = fam.compile([it])
    if not progs:
        print("program is now rejected:", dict(fam.rejected))
        return 0
    print("emitted text identical to the recorded one:", progs[0].rzil == rp.get("emitted"))
    nst = 64 if rp.get("tier") == "quick" else 256
    if rp["name"].startswith("sub:"):
        from . import submodels

        progs[0].extra["ref_fn"] = submodels.wrapper_refs().get(rp["name"])
        if "fcirc_add" in rp["text"]:
            progs[0].extra["states_fn"] = submodels.circ_states
    results, info = S.differential(progs, nst, seed=run.seed)
    r = results[0]
    print("verdict:", r.verdict(), "ok", r.ok, "diff", r.diff, "ilsort", r.ilsort, "defuse", r.defuse, "ub", r.ub)
    for f in r.fail_states:
        print("  ", f)
    return 1 if r.verdict() not in ("ok", "none_compared") else 0
