"""Offline checkers over emitted texts: C well-formedness (C11), ownership (C12), sorts (C10),
plus the clang -fsyntax-only second opinion against a stub plugin header."""
import os
import re
import subprocess
import tempfile

from . import coracle as CO
from . import ilfront as IL

STUB_H = r"""
typedef struct RzILOpPure_s RzILOpPure; typedef RzILOpPure RzILOpBool; typedef struct RzILOpEffect_s RzILOpEffect;
typedef struct HexOp_s { int x; } HexOp; typedef struct HexInsn_s { int slot; } HexInsn; typedef struct HexPkt_s { unsigned pkt_addr; } HexPkt;
typedef struct { const HexInsn *insn; HexPkt *pkt; } HexInsnPktBundle;
typedef int st32; typedef unsigned ut32; typedef long long st64; typedef unsigned long long ut64; typedef signed char st8; typedef unsigned char ut8; typedef short st16; typedef unsigned short ut16;
typedef int HexRegField; typedef int HexRegFieldProperty; typedef int RzFloatFormat; typedef int RzFloatRMode;
#define true 1
#define false 0
#define RZ_OWN
#define RZ_BORROW
enum { HEX_REG_CLASS_INT_REGS, HEX_REG_CLASS_DOUBLE_REGS, HEX_REG_CLASS_PRED_REGS, HEX_REG_CLASS_CTR_REGS, HEX_REG_CLASS_CTR_REGS64, HEX_REG_CLASS_MOD_REGS, HEX_REG_CLASS_GUEST_REGS, HEX_REG_CLASS_GUEST_REGS64, HEX_REG_CLASS_SYS_REGS, HEX_REG_CLASS_SYS_REGS64, HEX_REG_CLASS_HVX_VR, HEX_REG_CLASS_HVX_WR, HEX_REG_CLASS_HVX_QR };
enum { HEX_REG_ALIAS_LR, HEX_REG_ALIAS_SP, HEX_REG_ALIAS_FP, HEX_REG_ALIAS_GP, HEX_REG_ALIAS_USR, HEX_REG_ALIAS_SA0, HEX_REG_ALIAS_LC0, HEX_REG_ALIAS_SA1, HEX_REG_ALIAS_LC1, HEX_REG_ALIAS_FRAMEKEY, HEX_REG_ALIAS_UGP, HEX_REG_ALIAS_M0, HEX_REG_ALIAS_M1, HEX_REG_ALIAS_CS0, HEX_REG_ALIAS_CS1, HEX_REG_ALIAS_P3_0, HEX_REG_ALIAS_FRAMELIMIT, HEX_REG_ALIAS_UPCYCLE, HEX_REG_ALIAS_PKTCOUNT, HEX_REG_ALIAS_UTIMER, HEX_REG_ALIAS_PC @EXTRA_ALIASES@ };
enum { HEX_RF_WIDTH, HEX_RF_OFFSET }; enum { HEX_REG_FIELD_USR_OVF, HEX_REG_FIELD_USR_LPCFG, HEX_REG_FIELD_USR_FPINVF };
enum { RZ_FLOAT_IEEE754_BIN_32, RZ_FLOAT_IEEE754_BIN_64, RZ_FLOAT_RMODE_RNE, RZ_FLOAT_RMODE_RTZ };
RzILOpBool *IL_TRUE_(void);
#define IL_TRUE IL_TRUE_()
#define IL_FALSE IL_TRUE_()
#define P1(n) RzILOpPure *n(RzILOpPure *)
#define P2(n) RzILOpPure *n(RzILOpPure *, RzILOpPure *)
P1(DUP); P1(MSB); P1(LSB); P1(NON_ZERO); P1(IS_ZERO); P1(LOGNOT); P1(NEG); P1(INV); P1(F2BV); P1(BSWAP16); P1(BSWAP32); P1(BSWAP64); P1(IS_INF); P1(IS_NAN); P1(FNEG); P1(FABS);
P2(ADD); P2(SUB); P2(MUL); P2(DIV); P2(MOD); P2(SDIV); P2(SMOD); P2(LOGAND); P2(LOGOR); P2(LOGXOR); P2(SHIFTL0); P2(SHIFTR0); P2(SHIFTRA);
P2(EQ); P2(ULT); P2(ULE); P2(UGT); P2(UGE); P2(SLT); P2(SLE); P2(SGT); P2(SGE); P2(AND); P2(OR); P2(XOR); P2(FEQ); P2(FGT); P2(FGE); P2(FLT); P2(FLE); P2(FNEQ);
RzILOpPure *SN(unsigned, st64); RzILOpPure *UN(unsigned, ut64); RzILOpPure *U8(ut8); RzILOpPure *U16(ut16); RzILOpPure *U32(ut32); RzILOpPure *U64(ut64);
RzILOpPure *S8(st8); RzILOpPure *S16(st16); RzILOpPure *S32(st32); RzILOpPure *S64(st64);
RzILOpPure *CAST(unsigned, RzILOpBool *, RzILOpPure *); RzILOpPure *SIGNED(unsigned, RzILOpPure *); RzILOpPure *UNSIGNED(unsigned, RzILOpPure *);
RzILOpPure *ITE(RzILOpBool *, RzILOpPure *, RzILOpPure *); RzILOpPure *INC(RzILOpPure *, unsigned); RzILOpPure *DEC(RzILOpPure *, unsigned);
RzILOpPure *VARL(const char *); RzILOpPure *VARLP(const char *); RzILOpPure *LET(const char *, RzILOpPure *, RzILOpPure *);
RzILOpPure *LOADW(unsigned, RzILOpPure *); RzILOpPure *BV2F(int, RzILOpPure *);
RzILOpPure *FADD(int, RzILOpPure *, RzILOpPure *); RzILOpPure *FSUB(int, RzILOpPure *, RzILOpPure *); RzILOpPure *FMUL(int, RzILOpPure *, RzILOpPure *); RzILOpPure *FDIV(int, RzILOpPure *, RzILOpPure *);
RzILOpPure *EXTRACT64(RzILOpPure *, RzILOpPure *, RzILOpPure *); RzILOpPure *SEXTRACT64(RzILOpPure *, RzILOpPure *, RzILOpPure *); RzILOpPure *EXTRACT32(RzILOpPure *, RzILOpPure *, RzILOpPure *);
RzILOpPure *DEPOSIT64(RzILOpPure *, RzILOpPure *, RzILOpPure *, RzILOpPure *); RzILOpPure *DEPOSIT32(RzILOpPure *, RzILOpPure *, RzILOpPure *, RzILOpPure *);
RzILOpPure *HEX_REGFIELD(int, int); RzILOpPure *HEX_GET_CORRESPONDING_CS(HexPkt *, const HexOp *); int HEX_GET_INSN_RMODE(const HexInsn *);
RzILOpPure *HEX_D_TO_INT(int, RzILOpPure *); RzILOpPure *HEX_D_TO_SINT(int, RzILOpPure *); RzILOpPure *HEX_INT_TO_D(int, RzILOpPure *); RzILOpPure *HEX_SINT_TO_D(int, RzILOpPure *);
RzILOpPure *HEX_F_TO_INT(int, RzILOpPure *); RzILOpPure *HEX_F_TO_SINT(int, RzILOpPure *); RzILOpPure *HEX_INT_TO_F(int, RzILOpPure *); RzILOpPure *HEX_SINT_TO_F(int, RzILOpPure *);
RzILOpPure *READ_REG(HexPkt *, const HexOp *, int); RzILOpEffect *WRITE_REG(void *, const HexOp *, RzILOpPure *);
const HexOp *ISA2REG(const HexInsn *, char, int); ut64 ISA2IMM(const HexInsn *, char); HexOp EXPLICIT2OP(int, int, int); HexOp ALIAS2OP(int, int); HexOp NREG2OP(HexInsnPktBundle *, char);
RzILOpEffect *SETL(const char *, RzILOpPure *); RzILOpEffect *STOREW(RzILOpPure *, RzILOpPure *); RzILOpEffect *SEQN(int, ...); RzILOpEffect *SEQ2(RzILOpEffect *, RzILOpEffect *);
RzILOpEffect *SEQ3(RzILOpEffect *, RzILOpEffect *, RzILOpEffect *);
RzILOpEffect *BRANCH(RzILOpBool *, RzILOpEffect *, RzILOpEffect *); RzILOpEffect *REPEAT(RzILOpBool *, RzILOpEffect *); RzILOpEffect *NOP(void); RzILOpEffect *EMPTY(void);
RzILOpEffect *HEX_STORE_SLOT_CANCELLED(HexPkt *, int); RzILOpEffect *HEX_GET_NPC(HexPkt *); RzILOpEffect *HEX_SETROUND(const HexInsn *, int);
"""
# note on WRITE_REG: the compiler passes `bundle` for assignments and `pkt` for postfix ++/-- on registers; the stub takes void*.


def clang_syntax_check(bodies: list[tuple[str, str]], sub_decl_texts: dict, sub_def_texts: dict | None = None) -> dict:
    """bodies: [(label, emitted body text)]. Returns label -> list of diagnostics. Sub-routine
    definitions (if given) are checked as they are. One translation unit per call."""
    extra_alias = set()
    for _, t in bodies:
        extra_alias.update(re.findall(r"\bHEX_REG_ALIAS_\w+", t))
    known = set(re.findall(r"\bHEX_REG_ALIAS_\w+", STUB_H))
    extra = sorted(extra_alias - known)
    src = [STUB_H.replace("@EXTRA_ALIASES@", "".join(", " + a for a in extra))]
    for n, decl in sub_decl_texts.items():
        src.append(decl + ";")
    labels = {}
    if sub_def_texts:
        for k, (n, d) in enumerate(sub_def_texts.items()):
            lab = f"subdef_{k}"
            labels[lab] = "sub:" + n
            src.append(f'#line 1 "{lab}"\n{d}')
    for k, (label, text) in enumerate(bodies):
        lab = f"body_{k}"
        labels[lab] = label
        src.append(f"RzILOpEffect *verif_f_{k}(HexInsnPktBundle *bundle) {{ HexPkt *pkt = bundle->pkt; const HexInsn *hi = bundle->insn; (void)pkt; (void)hi;\n"
                   f'#line 1 "{lab}"\n{text}\n}}')
    d = tempfile.mkdtemp(prefix="verif-clang-")
    path = os.path.join(d, "bodies.c")
    with open(path, "w") as f:
        f.write("\n".join(src))
    r = subprocess.run(["clang", "-fsyntax-only", "-ferror-limit=0", "-Wno-unused-value", "-Werror=implicit-function-declaration",
                        "-Werror=incompatible-pointer-types", "-Werror=int-conversion", "-Werror=return-type", "-Wno-incompatible-pointer-types-discards-qualifiers", path],
                       capture_output=True, text=True)
    out = {}
    for m in re.finditer(r'^((?:body|subdef)_\d+):(\d+):\d+: (error|warning): (.*)$', r.stderr, re.M):
        if m.group(3) == "error":
            out.setdefault(labels[m.group(1)], []).append(f"line {m.group(2)}: {m.group(4)}"[:200])
    if r.returncode != 0 and not out:
        out["<translation unit>"] = [r.stderr[-500:]]
    try:
        os.unlink(path)
        os.rmdir(d)
    except OSError:
        pass
    return out


def sub_decls(sub_defs: dict) -> dict:
    out = {}
    for n, d in sub_defs.items():
        m = IL.SUBDEF.match(d)
        if m:
            out[n] = d[: m.end() - 1].strip()
    return out


def check_output(src: str, rzil: str, subs: dict, is_sub=False, params=(), pure_params=()):
    """Run (a)-(d) on one emitted text. Returns dict(syntax, wellformed[], ownership[], sorts[], unknown[], nodes, ops, rules)."""
    res = dict(syntax=None, wellformed=[], ownership=[], sorts=[], unknown=[], nodes=0, ops={}, rules={}, decls=0)
    if rzil.strip() == "return NOP();":
        res["nodes"] = 1
        res["ops"] = {"NOP": 1}
        return res
    try:
        body = IL.parse_body(rzil)
    except IL.ILSyntaxError as e:
        res["syntax"] = str(e)
        return res
    res["decls"] = len(body.decls)
    free = ("bundle", "pkt", "hi") + tuple(params)
    res["wellformed"] = IL.wellformed(body, params=free, known_subs=set(subs), is_sub=is_sub)
    res["ownership"] = IL.ownership(body, pure_params=pure_params)
    try:
        term = IL.resolve(body)
    except IL.ILSyntaxError as e:
        res["syntax"] = str(e)
        return res
    ops = CO.scan_operands(src) if src else []
    sc = IL.check_sorts(term, CO.slot_widths(ops), subs)
    res["sorts"] = sc.problems
    res["unknown"] = sc.unknown[:5]
    res["nodes"] = sc.nodes
    res["ops"] = sc.ops
    res["rules"] = sc.rules
    return res


def check_sub_def(name: str, text: str, subs: dict):
    res = dict(syntax=None, wellformed=[], ownership=[], sorts=[], unknown=[], nodes=0, ops={}, rules={}, decls=0)
    try:
        nm, params, body = IL.parse_subroutine_def(text)
    except IL.ILSyntaxError as e:
        res["syntax"] = str(e)
        return res
    res["decls"] = len(body.decls)
    pnames = tuple(p[1] for p in params)
    pure = tuple(p[1] for p in params if p[0] == "pure")
    res["wellformed"] = IL.wellformed(body, params=pnames, known_subs=set(subs), is_sub=True)
    # a body that mentions pkt / hi must declare them (parameters excepted)
    code, _ = IL.strip_comments(text[text.index("{"):])
    declared = {d[2] for d in body.decls}
    for v in ("pkt", "hi"):
        if IL.mentions(code, v) and v not in declared and v not in pnames:
            res["wellformed"].append(f"sub-routine body mentions {v} but does not declare it")
    res["ownership"] = IL.ownership(body, pure_params=pure)
    return res
