"""Token-level expression / statement string generator for the grammar check (C17)."""
import random

BIN = ["*", "/", "%", "+", "-", "<<", ">>", "<", ">", "<=", ">=", "==", "!=", "&", "^", "|", "&&", "||"]
ATOMS = ["a", "b", "c", "RsV", "RttV", "PuN", "NsN", "uiV", "siV", "0x10", "7U", "1LL", "0xffULL", "P0", "P1_NEW", "R31", "C3:2",
         "HEX_REG_ALIAS_LR", "HEX_REG_ALIAS_USR_NEW", "EA", "RxV", "RyyV", "MuV", "CsV"]
TYPES = ["int8_t", "uint64_t", "size4u_t", "size2s_t", "int", "int32_t", "uint16_t"]
ASSIGN = ["=", "+=", "-=", "*=", "<<=", ">>=", "|=", "&=", "^="]


class G17:
    def __init__(self, rng: random.Random, max_depth=6):
        self.r = rng
        self.depth = 0
        self.max_depth = max_depth

    def atom(self):
        self.depth += 1
        try:
            c = self.r.random()
            if self.depth > self.max_depth:
                c *= 0.45
            if c < 0.45:
                return self.r.choice(ATOMS)
            if c < 0.56:
                return f"({self.expr(1)})"
            if c < 0.66:
                return self.r.choice(["-", "~", "!", "+"]) + self.atom()
            if c < 0.76:
                return f"(({self.r.choice(TYPES)}){self.atom()})"
            if c < 0.80:
                return self.r.choice(["a", "b", "i"]) + self.r.choice(["++", "--"])
            if c < 0.86:
                return f"{self.r.choice(['clz32', 'fbrev', 'foo'])}({self.expr(1)})"
            if c < 0.90:
                return f"mem_load_{self.r.choice(['s16', 'u8', 'u32', 's64'])}({self.expr(1)})"
            if c < 0.93:
                return f"{self.r.choice(['extract64', 'deposit32', 'sextract64'])}({self.expr(0)}, {self.expr(0)}, {self.expr(0)})"
            if c < 0.96:
                return f"({{ {self.r.choice(['a', 'b'])} = {self.expr(0)}; {self.r.choice(['a', 'b'])}; }})"
            return f"({self.expr(0)} ? {self.expr(0)} : {self.expr(0)})"
        finally:
            self.depth -= 1

    def expr(self, d):
        e = self.atom()
        for _ in range(self.r.randint(0, 3 if d else 2)):
            op = self.r.choice(BIN)
            nxt = self.atom()
            # masked: postfix ++/-- directly before a binary + - & (listed finding postfix_incdec_before_binary_op)
            if e.endswith(("++", "--")) and op[0] in "+-&*":
                e = f"({e})"
            e = e + " " + op + " " + nxt
        if self.r.random() < 0.15:
            e = f"{e} ? {self.atom()} : {self.expr(0)}"
        return e

    def stmt(self, d):
        c = self.r.random()
        if d <= 0 or c < 0.4:
            return f"{self.r.choice(['x', 'RdV', 'RddV', 'PdV', 'P0', 'HEX_REG_ALIAS_SP'])} {self.r.choice(ASSIGN)} {self.expr(1)};"
        if c < 0.6:
            # braces around a nested if that is followed by else (listed finding dangling_else is masked)
            s = f"if ({self.expr(0)}) {{ {self.stmt(d - 1)} }}"
            k = self.r.random()
            if k < 0.4:
                s += f" else {self.stmt_nobareif(d - 1)}"
            elif k < 0.6:
                s += f" else if ({self.expr(0)}) {{ {self.stmt(d - 1)} }} else {{ {self.stmt(d - 1)} }}"
            return s
        if c < 0.7:
            return f"if ({self.expr(0)}) {self.stmt_nobareif(d - 1)}"
        if c < 0.82:
            return f"for (i = 0; i < {self.expr(0)}; i++) {{ {self.stmt(d - 1)} {self.stmt(d - 1)} }}"
        if c < 0.88:
            return f"{{ {self.r.choice(TYPES)} t = {self.expr(0)}; {self.stmt(d - 1)} }}"
        if c < 0.92:
            return f"mem_store_u{self.r.choice(['8', '16', '32', '64'])}({self.expr(0)}, {self.expr(0)});"
        if c < 0.95:
            return f"JUMP({self.expr(0)});"
        if c < 0.97:
            return "cancel_slot;"
        return ";"

    def stmt_nobareif(self, d):
        s = self.stmt(d)
        if s.startswith("if"):
            return "{ " + s + " }"
        if s == ";":
            return "{ }"  # listed finding if_empty_body_is_call is masked
        return s


def pair_matrix():
    """every ordered pair of binary operators: a OP1 b OP2 c (all precedence-adjacent and equal-precedence pairs are included)"""
    return [f"{{ x = a {o1} b {o2} c; }}" for o1 in BIN for o2 in BIN]


def unary_matrix():
    out = []
    for u in ["-", "~", "!", "+"]:
        for o in BIN:
            out.append(f"{{ x = {u}a {o} b; }}")
            out.append(f"{{ x = a {o} {u}b; }}")
            out.append(f"{{ x = {u}(int8_t)a {o} b; }}")
        for p in ["++", "--"]:
            out.append(f"{{ x = {u}a{p}; }}")
    for t in TYPES:
        out.append(f"{{ x = ({t}) a + b; }}")
        out.append(f"{{ x = ({t}) (a) - (b); }}")
        out.append(f"{{ x = (a) + ({t}) b * c; }}")
        out.append(f"{{ x = ({t}) -a; }}")
        out.append(f"{{ x = ({t}) ~(a) ; }}")
        out.append(f"{{ x = sizeof(a) * ({t}) b; }}")
    out += ["{ x = a ? b : c ? d : e; }", "{ x = a ? b ? c : d : e; }", "{ x = a || b ? c && d : e | f; }", "{ x = a = b = c; }", "{ x += y -= z; }",
            "{ x = a ? b : (c = d); }", "{ if (a) x = 1; else if (b) x = 2; else x = 3; }", "{ if (a) { if (b) x = 1; } else x = 2; }",
            "{ if (a) { if (b) x = 1; else x = 2; } }", "{ for (i = 0; i < 4; i++) if (a) x += i; else x -= i; }",
            "{ x = ({ y = 1; y; }) + ({ z = 2; z; }); }", "{ x = a ? ({ y = 1; y; }) : ({ y = 2; y; }); }", "{ { { x = 1; } } ; { } }",
            "{ int a = 1; uint32_t b; b = a; const int32_t k = 3; unsigned int u = 4; }"]
    return out


def token_class_probes():
    toks = ["RsV", "RtV", "RuV", "RvV", "RwV", "RssV", "RttV", "RuuV", "RvvV", "RdV", "ReV", "RddV", "RxV", "RyV", "RzV", "RxxV", "RyyV",
            "PsV", "PtV", "PuV", "PvV", "PdV", "PeV", "PxV", "CsV", "CdV", "CssV", "CddV", "MuV", "NsN", "NtN", "PtN", "PuN", "PvN", "RsN",
            "siV", "SiV", "uiV", "UiV", "riV", "miV", "niV", "P0", "P1", "P2", "P3", "P0_NEW", "R31", "R29", "R0", "C3:2", "R31:30", "P3:0",
            "HEX_REG_ALIAS_LR", "HEX_REG_ALIAS_SP", "HEX_REG_ALIAS_USR", "HEX_REG_ALIAS_USR_NEW", "HEX_REG_ALIAS_PC", "HEX_REG_ALIAS_GP",
            "HEX_REG_ALIAS_P3_0", "HEX_REG_ALIAS_UPCYCLE", "EA", "i", "foo", "Rs", "RsVx", "xRsV", "siVV", "P4", "R32", "Rss", "RstV", "tmp_V"]
    out = [f"{{ x = {t}; }}" for t in toks]
    out += [f"{{ {t} = x; }}" for t in toks if not t.endswith(("N", "_NEW")) and ":" not in t and t not in ("siV", "SiV", "uiV", "UiV", "riV", "RiV", "miV", "niV", "PiV")]
    out += [f"{{ y = 1; x = {t}; }}" for t in toks if ":" in t]
    return out
