"""Session = pristine compilers + bundled sub-routine texts; common steps shared by the checks."""
import json
import os

from . import common, corpus, harness, outcheck
from . import diff as D
from . import ilfront as IL


class Session:
    def __init__(self, layouts=("rs",)):
        harness.install_hooks()
        self.comps = {l: harness.new_compiler(l) for l in layouts}
        first = self.comps[layouts[0]]
        self.base_defs = harness.sub_defs(first)
        self.base_sigs = harness.sub_sigs(first)
        self.base_c = corpus.base_c_subs()
        self.base_subs = IL.parse_subs(self.base_defs, self.base_sigs)
        self._beh = None

    @property
    def behaviors(self):
        if self._beh is None:
            self._beh = corpus.load_behaviors(next(iter(self.comps.values())))
        return self._beh

    # ---------------------------------------------------------------- compile
    def compile_stmts(self, cases, timeout=120.0):
        """cases: list of dict(text, layout?, subs?, aged?)"""
        comps = self.comps
        return harness.run_forked(lambda c: harness.compile_stmt_case(comps, c), cases, timeout=timeout)

    def compile_insns(self, names, layout="rs"):
        return corpus.compile_corpus(self.comps, self.behaviors, names, layout=layout)

    # ---------------------------------------------------------------- oracles
    def differential(self, progs, nstates, seed=None, **kw):
        return D.run_differential(progs, self._defs_with_sigs(), self.base_c, nstates, common.seed() if seed is None else seed, **kw)

    def _defs_with_sigs(self):
        return self.base_defs

    def subs_for(self, extra_defs=None, extra_sigs=None):
        if not extra_defs:
            return self.base_subs
        s = dict(self.base_subs)
        s.update(IL.parse_subs(extra_defs, extra_sigs))
        return s

    def outcheck(self, items):
        """items: list of dict(name, src, rzil, sub_defs?, sub_sigs?) -> list of outcheck result dicts"""
        sess = self

        def work(it):
            subs = sess.subs_for(it.get("sub_defs"), it.get("sub_sigs"))
            return outcheck.check_output(it.get("src", ""), it["rzil"], subs)

        return harness.pmap(work, items)
