"""E3 - the C reference: behaviour text compiled as real C by gcc -O0 with UBSan handlers
(undefined executions are flagged and skipped), optional clang build as value cross-check.
Also: the independent operand scanner (DESIGN Appendix C) and the state generator."""
import os
import random
import re
import shutil
import subprocess
import tempfile

from . import common
from .ilfront import sx

REG = re.compile(r"\b([RPCMN])([stuvw]|ss|tt|uu|vv|[de]|dd|[xyz]|xx|yy)([VN])\b")
IMM = re.compile(r"\b([rRsSuUmn])iV\b")
EXPL = re.compile(r"\b([RPCM])(\d+)(?::(\d+))?(_NEW)?\b")
ALIAS = re.compile(r"\bHEX_REG_ALIAS_([A-Z0-9_]+?)(_NEW)?\b")
ALIASES = ["LR", "SP", "FP", "GP", "USR", "SA0", "LC0", "SA1", "LC1", "FRAMEKEY", "UGP", "M0", "M1", "CS0", "CS1",
           "P3_0", "FRAMELIMIT", "UPCYCLE", "PKTCOUNT", "UTIMER", "PKTCNTHI", "PKTCNTLO", "UPCYCLEHI", "UPCYCLELO", "UTIMERHI", "UTIMERLO"]
NAL = len(ALIASES)
ALIAS64 = {"UPCYCLE", "PKTCOUNT", "UTIMER"}
NV = 64  # operand vector length
NL = 24  # exported locals


def scan_operands(text: str) -> list[dict]:
    """Independent token scan -> ordered list of operand descriptors."""
    ops, seen = [], set()
    for m in REG.finditer(text):
        t = m.group(0)
        if t in seen:
            continue
        seen.add(t)
        cls, ids, suf = m.groups()
        pair = len(ids) == 2
        if pair and ids[0] != ids[1]:
            continue
        w = (16 if pair else 8) if cls == "P" else (64 if pair else 32)
        slot = ids[0]
        if suf == "N":
            key = ("nreg:" if cls == "N" else "slot:") + slot
            bank = "new"
        else:
            key = "slot:" + slot
            bank = "new" if slot in "de" else "old"
        ops.append(dict(tok=t, kind="reg", cls=cls, slot=slot, w=w, signed=True, key=key, bank=bank, writable=(suf == "V")))
    for m in IMM.finditer(text):
        t = m.group(0)
        if t in seen:
            continue
        seen.add(t)
        ops.append(dict(tok=t, kind="imm", letter=m.group(1), w=32, signed=m.group(1) in "rRsS", writable=True))
    for m in EXPL.finditer(text):
        t = m.group(0)
        if t in seen:
            continue
        seen.add(t)
        cls, n, n2, new = m.groups()
        num = min(int(n), int(n2)) if n2 else int(n)
        pair = n2 is not None
        klass = {"R": "DOUBLE_REGS" if pair else "INT_REGS", "P": "PRED_REGS", "C": "CTR_REGS64" if pair else "CTR_REGS", "M": "MOD_REGS"}[cls]
        w = 8 if cls == "P" else (64 if pair else 32)
        ops.append(dict(tok=t, ctok=t.replace(":", "_"), kind="expl", w=w, signed=True, key=f"expl:HEX_REG_CLASS_{klass}:{num}",
                        bank="new" if new else "old", writable=not new))
    return ops


def slot_widths(ops) -> dict:
    return {o["slot"]: o["w"] for o in ops if o["kind"] == "reg"}


CT = {(8, True): "int8_t", (16, True): "int16_t", (32, True): "int32_t", (64, True): "int64_t",
      (8, False): "uint8_t", (16, False): "uint16_t", (32, False): "uint32_t", (64, False): "uint64_t"}


def fix_redeclarations(text: str) -> tuple[str, bool]:
    """Macro expansion leaves e.g. two `int j;` in one scope (7 corpus parts). The compiler reads the
    second as the same variable; drop the repeated type specifier of a same-type redeclaration."""
    changed = False
    seen = {}
    depth = 0
    out = []
    pos = 0
    pat = re.compile(r"(\{|\}|\b(?:int|unsigned|u?int(?:8|16|32|64)_t|size[1248][su]_t)\s+([A-Za-z_]\w*)\s*(?=[;=]))")
    for m in pat.finditer(text):
        out.append(text[pos:m.start()])
        pos = m.end()
        tok = m.group(1)
        if tok == "{":
            depth += 1
            out.append(tok)
        elif tok == "}":
            for k in [k for k in seen if k[0] >= depth]:
                del seen[k]
            depth -= 1
            out.append(tok)
        else:
            name = m.group(2)
            ty = tok[: tok.rindex(name)].strip()
            # visible redeclaration in the same scope
            if (depth, name) in seen and seen[(depth, name)] == ty:
                out.append(name + " ")
                changed = True
            else:
                seen[(depth, name)] = ty
                out.append(tok)
    out.append(text[pos:])
    return "".join(out), changed


def c_function(idx: int, text: str, ops: list[dict], exports=()) -> str:
    decl, outs = [], []
    for k, o in enumerate(ops):
        ty = CT[(o["w"], o["signed"])]
        name = o.get("ctok", o["tok"])
        decl.append(f"{ty} {name} = ({ty})in->v[{k}];")
        outs.append(f"out->v[{k}] = (uint64_t)({name});")
    body = text
    if any(o["kind"] == "expl" and ":" in o["tok"] for o in ops):
        for o in ops:
            if o["kind"] == "expl" and ":" in o["tok"]:
                body = body.replace(o["tok"], o["ctok"])
    if exports:
        b = body.strip()
        if not (b.startswith("{") and b.endswith("}")):
            raise ValueError("program with exports must be one block")
        epi = " ".join(f"out->l[{k}] = (uint64_t)({n});" for k, (n, _) in enumerate(exports))
        body = b[:-1] + " " + epi + " }"
    return (f"static void beh_{idx}(const In *in, Out *out) {{\n uint32_t EA=0, i=0, j=0, k=0; (void)EA;(void)i;(void)j;(void)k;\n "
            + "\n ".join(decl) + "\n " + body + "\n " + "\n ".join(outs) + "\n}\n")


def subroutine_c(sr: dict) -> str:
    """sr: name -> {return_type, params, code} (the JSON shape of sub_routines.json).
    A `const HexOp *Rx` parameter is by-reference: the C function takes a pointer and a macro of the
    sub-routine's name passes the address of the caller's register variable."""
    out, protos, macros = [], [], []
    for name, r in sr.items():
        params = []
        body = r["code"]
        byref = []
        pnames = []
        for k, p in enumerate(r["params"]):
            pn = re.findall(r"\w+", p)[-1]
            pnames.append(pn)
            if "HexInsnPktBundle" in p:
                params.append("void *bundle")
            elif "HexOp" in p:
                byref.append(k)
                params.append(f"int32_t *{pn}_p")
                body = re.sub(rf"\b{pn}\b", f"(*{pn}_p)", body)
            elif "HexRegField" in p:
                params.append("int " + pn)
            elif "HexPkt" in p:
                params.append("void *" + pn)
            else:
                params.append(p)
        # the dialect's implicit locals (loop counters, EA) are locals of the routine, as they are of a behaviour
        implicit = [v for v in ("EA", "i", "j", "k") if re.search(rf"\b{v}\b", body) and v not in pnames
                    and not re.search(rf"\b(?:u?int(?:8|16|32|64)_t|int|unsigned|size[1248][us]_t)\s+{v}\b", body)]
        if implicit and body.lstrip().startswith("{"):
            decl = " uint32_t " + ", ".join(f"{v}=0" for v in implicit) + "; " + "".join(f"(void){v};" for v in implicit)
            body = body.replace("{", "{" + decl, 1)
        fn = name + ("_impl" if byref else "")
        if byref:
            formal = [f"a{k}" for k in range(len(pnames))]
            actual = [f"&({a})" if k in byref else a for k, a in enumerate(formal)]
            macros.append(f"#define {name}({', '.join(formal)}) {fn}({', '.join(actual)})")
        sig = f"static {r['return_type']} {fn}({', '.join(params)})"
        protos.append(sig + ";")
        out.append(sig + " " + body)
    return "\n".join(protos) + "\n" + "\n".join(out) + "\n" + "\n".join(macros) + "\n"


PRELUDE = r"""
#include <stdint.h>
#include <stdio.h>
#include <stdlib.h>
#include <string.h>
#include <math.h>
#include <fenv.h>
#include <setjmp.h>
#include <signal.h>
static sigjmp_buf fpe_jb; static void on_fpe(int s){ siglongjmp(fpe_jb, 1); }
typedef struct { uint64_t v[@NV@]; } In;
typedef struct { uint64_t v[@NV@]; uint64_t l[@NL@]; } Out;
typedef int8_t size1s_t; typedef uint8_t size1u_t; typedef int16_t size2s_t; typedef uint16_t size2u_t;
typedef int32_t size4s_t; typedef uint32_t size4u_t; typedef int64_t size8s_t; typedef uint64_t size8u_t;
static int ub_flag;
void __ubsan_handle_shift_out_of_bounds(void *d, void *l, void *r){ ub_flag |= 1; }
void __ubsan_handle_divrem_overflow(void *d, void *l, void *r){ ub_flag |= 2; }
void __ubsan_handle_shift_out_of_bounds_abort(void *d, void *l, void *r){ ub_flag |= 1; }
void __ubsan_handle_divrem_overflow_abort(void *d, void *l, void *r){ ub_flag |= 2; }
static struct { uint32_t pc, npc, cs, memseed; uint64_t al[@NAL@]; int jump_flag; uint32_t jump_target; int cancelled; int rmode; int setround; } S;
@ALIASDEFS@
#define HEX_REG_ALIAS_PC (S.pc)
#define JUMP(x) do { S.jump_flag = 1; S.jump_target = (uint32_t)(x); } while (0)
#define cancel_slot ((void)0)
#define STORE_SLOT_CANCELLED(p, s) (S.cancelled = 1)
#define __NOP ((void)0)
static void *bundle, *pkt, *hi; static int slot;
#define MEMN 4096
static uint32_t mem_a[MEMN]; static uint8_t mem_b[MEMN]; static uint8_t mem_used[MEMN]; static int mem_n;
static uint8_t mixb(uint32_t seed, uint32_t addr){ uint32_t x = (addr * 0x9E3779B1u) ^ seed; x ^= x >> 15; x *= 0x85EBCA77u; x ^= x >> 13; return (uint8_t)x; }
static int mem_find(uint32_t a){ uint32_t h = (a * 2654435761u) % MEMN; while (mem_used[h] && mem_a[h] != a) h = (h + 1) % MEMN; return (int)h; }
static uint64_t mem_rd(uint32_t a, int n){ uint64_t v = 0; for (int i = 0; i < n; i++){ uint32_t x = a + (uint32_t)i; int h = mem_find(x); uint8_t b = mem_used[h] ? mem_b[h] : mixb(S.memseed, x); v |= (uint64_t)b << (8*i);} return v; }
static void mem_wr(uint32_t a, int n, uint64_t v){ for (int i = 0; i < n; i++){ uint32_t x = a + (uint32_t)i; int h = mem_find(x); if (!mem_used[h]) { if (mem_n >= MEMN - 8) { ub_flag |= 8; return; } mem_used[h] = 1; mem_a[h] = x; mem_n++; } mem_b[h] = (uint8_t)(v >> (8*i)); } }
#define mem_load_s8(a) ((int8_t)mem_rd(a,1))
#define mem_load_u8(a) ((uint8_t)mem_rd(a,1))
#define mem_load_s16(a) ((int16_t)mem_rd(a,2))
#define mem_load_u16(a) ((uint16_t)mem_rd(a,2))
#define mem_load_s32(a) ((int32_t)mem_rd(a,4))
#define mem_load_u32(a) ((uint32_t)mem_rd(a,4))
#define mem_load_s64(a) ((int64_t)mem_rd(a,8))
#define mem_load_u64(a) ((uint64_t)mem_rd(a,8))
#define mem_store_u8(a,d) mem_wr(a,1,(uint8_t)(d))
#define mem_store_u16(a,d) mem_wr(a,2,(uint16_t)(d))
#define mem_store_u32(a,d) mem_wr(a,4,(uint32_t)(d))
#define mem_store_u64(a,d) mem_wr(a,8,(uint64_t)(d))
#define mem_store_s8(a,d) mem_wr(a,1,(uint8_t)(int8_t)(d))
#define mem_store_s16(a,d) mem_wr(a,2,(uint16_t)(int16_t)(d))
#define mem_store_s32(a,d) mem_wr(a,4,(uint32_t)(int32_t)(d))
#define mem_store_s64(a,d) mem_wr(a,8,(uint64_t)(int64_t)(d))
static inline uint64_t extract64(uint64_t value, int start, int length){ if (start < 0 || length <= 0 || start + length > 64) { ub_flag |= 4; return 0; } return (value >> start) & (~0ULL >> (64 - length)); }
static inline uint32_t extract32(uint32_t value, int start, int length){ if (start < 0 || length <= 0 || start + length > 32) { ub_flag |= 4; return 0; } return (value >> start) & (~0U >> (32 - length)); }
static inline int64_t sextract64(uint64_t value, int start, int length){ if (start < 0 || length <= 0 || start + length > 64) { ub_flag |= 4; return 0; } return ((int64_t)(value << (64 - length - start))) >> (64 - length); }
static inline uint64_t deposit64(uint64_t value, int start, int length, uint64_t fieldval){ if (start < 0 || length <= 0 || start + length > 64) { ub_flag |= 4; return 0; } uint64_t mask = (~0ULL >> (64 - length)) << start; return (value & ~mask) | ((fieldval << start) & mask); }
static inline uint32_t deposit32(uint32_t value, int start, int length, uint32_t fieldval){ if (start < 0 || length <= 0 || start + length > 32) { ub_flag |= 4; return 0; } uint32_t mask = (~0U >> (32 - length)) << start; return (value & ~mask) | ((fieldval << start) & mask); }
#define bswap16 __builtin_bswap16
#define bswap32 __builtin_bswap32
#define bswap64 __builtin_bswap64
enum { HEX_RF_WIDTH, HEX_RF_OFFSET };
enum { HEX_REG_FIELD_USR_OVF, HEX_REG_FIELD_USR_LPCFG, HEX_REG_FIELD_USR_FPINVF };
static uint32_t REGFIELD(int prop, int field){ static const int t[3][2] = {{0,1},{8,2},{1,1}}; return prop == HEX_RF_WIDTH ? t[field][1] : t[field][0]; }
static int32_t get_corresponding_CS(void *p, int32_t Mu){ return (int32_t)S.cs; }
static uint32_t get_npc(void *p){ return S.npc; }
static void fatal(const char *m){ }

enum { RZ_FLOAT_IEEE754_BIN_32, RZ_FLOAT_IEEE754_BIN_64 };
enum { RZ_FLOAT_RMODE_RNE, RZ_FLOAT_RMODE_RTZ };
static inline double DOUBLE(int f, uint64_t x){ double d; memcpy(&d,&x,8); return d; }
static inline float FLOAT(int f, uint32_t x){ float d; memcpy(&d,&x,4); return d; }
static inline uint64_t fUNDOUBLE(double d){ uint64_t x; memcpy(&x,&d,8); return x; }
static inline uint32_t fUNFLOAT(float d){ uint32_t x; memcpy(&x,&d,4); return x; }
#define HEX_GET_INSN_RMODE(h) (S.rmode)
#define HEX_SETROUND(h, m) (S.setround = 1, S.rmode = (m))
static int frange(double d, double lo, double hi){ if (!(d > lo && d < hi)) { ub_flag |= 16; return 0; } return 1; }
static double rnd(int m, double d){ return m == RZ_FLOAT_RMODE_RTZ ? trunc(d) : nearbyint(d); }
static uint64_t HEX_D_TO_INT(int m, double d){ d = rnd(m, d); return frange(d, -1.0, 18446744073709551616.0) ? (uint64_t)d : 0; }
static uint64_t HEX_D_TO_SINT(int m, double d){ d = rnd(m, d); return frange(d, -9223372036854775809.0, 9223372036854775808.0) ? (uint64_t)(int64_t)d : 0; }
static double HEX_INT_TO_D(int m, uint64_t v){ return (double)v; } static double HEX_SINT_TO_D(int m, int64_t v){ return (double)v; }
static uint64_t HEX_F_TO_INT(int m, float d){ return HEX_D_TO_INT(m, d); } static uint64_t HEX_F_TO_SINT(int m, float d){ return HEX_D_TO_SINT(m, d); }
static float HEX_INT_TO_F(int m, uint64_t v){ return (float)v; } static float HEX_SINT_TO_F(int m, int64_t v){ return (float)v; }
#define MEM_STORE0(a,b,c) ((void)0)
#define INSN_SLOT 0
#define fISYNC() ((void)0)
#define fBARRIER() ((void)0)
#define fSYNCH() ((void)0)
#define fL2FETCH(a,b,c,d,e) ((void)0)
"""

MAIN = r"""
typedef void (*beh_fn)(const In *, Out *);
static beh_fn table[] = { @TABLE@ };
static int nvars[] = { @NVARS@ };
static int nloc[] = { @NLOC@ };
int main(void){
  char *line = NULL; size_t cap = 0; signal(SIGFPE, on_fpe);
  while (getline(&line, &cap, stdin) > 0) {
    char *p = line; static In in; static Out out; memset(&in,0,sizeof in); memset(&out,0,sizeof out);
    long idx = strtol(p, &p, 16);
    S.memseed = (uint32_t)strtoull(p, &p, 16); S.pc = (uint32_t)strtoull(p, &p, 16); S.npc = (uint32_t)strtoull(p, &p, 16); S.cs = (uint32_t)strtoull(p, &p, 16);
    for (int a = 0; a < @NAL@; a++) S.al[a] = strtoull(p, &p, 16);
    int n = nvars[idx];
    for (int v = 0; v < n; v++) in.v[v] = strtoull(p, &p, 16);
    S.jump_flag = 0; S.jump_target = 0; S.cancelled = 0; S.rmode = 0; S.setround = 0; ub_flag = 0; memset(mem_used, 0, sizeof mem_used); mem_n = 0;
    if (sigsetjmp(fpe_jb, 1) == 0) table[idx](&in, &out); else ub_flag |= 64;
    printf("%d %d %x %d", ub_flag, S.jump_flag, S.jump_target, S.cancelled);
    for (int a = 0; a < @NAL@; a++) printf(" %llx", (unsigned long long)S.al[a]);
    for (int v = 0; v < n; v++) printf(" %llx", (unsigned long long)out.v[v]);
    for (int v = 0; v < nloc[idx]; v++) printf(" %llx", (unsigned long long)out.l[v]);
    printf(" %d", mem_n);
    for (int h = 0; h < MEMN; h++) if (mem_used[h]) printf(" %x:%x", mem_a[h], mem_b[h]);
    printf("\n");
  }
  return 0;
}
"""

# self-test of the UB detector: expression, operand values, expected "undefined?" (DESIGN E3)
SELFTEST = []
for _lt, _lw in (("int8_t", 32), ("uint8_t", 32), ("int16_t", 32), ("uint16_t", 32), ("int32_t", 32), ("uint32_t", 32), ("int64_t", 64), ("uint64_t", 64)):
    for _rt in ("int8_t", "uint8_t", "int32_t", "uint32_t", "int64_t", "uint64_t"):
        for _op in ("<<", ">>"):
            SELFTEST.append((f"(({_lt})a) {_op} (({_rt})b)", 1, _lw - 1, False))
            SELFTEST.append((f"(({_lt})a) {_op} (({_rt})b)", 1, _lw, True))
            if _rt in ("int64_t", "uint64_t"):
                SELFTEST.append((f"(({_lt})a) {_op} (({_rt})b)", 1, 1 << 47, True))
            if _rt.startswith("int"):
                SELFTEST.append((f"(({_lt})a) {_op} (({_rt})b)", 1, 0xFFFFFFFFFFFFFFFF, True))
for _lt in ("int32_t", "uint32_t", "int64_t", "uint64_t"):
    for _op in ("/", "%"):
        SELFTEST.append((f"(({_lt})a) {_op} (({_lt})b)", 7, 0, True))
        SELFTEST.append((f"(({_lt})a) {_op} (({_lt})b)", 7, 2, False))


class Oracle:
    """One translation unit with N behaviour functions; run() feeds states and returns parsed results."""

    def __init__(self, parts, sub_src: dict, cc="gcc", opt="-O0", extra_subs: dict | None = None, keep=False):
        """parts: list of dict(name, text, exports=[(name, ctype)], subs={name: json-shaped dict})"""
        self.parts = parts
        self.cc = cc
        self.dir = tempfile.mkdtemp(prefix="verif-oracle-")
        self.oplists = []
        self.rewritten = []
        self.bad = {}
        self.exe = None
        self.err = None
        al = []
        for k, a in enumerate(ALIASES):
            ty = "uint64_t" if a in ALIAS64 else "uint32_t"
            al.append(f"#define HEX_REG_ALIAS_{a} (*({ty}*)&S.al[{k}])")
        subs = dict(sub_src)
        if extra_subs:
            subs.update(extra_subs)
        self.head = PRELUDE.replace("@ALIASDEFS@", "\n".join(al)).replace("@NV@", str(NV)).replace("@NL@", str(NL)).replace("@NAL@", str(NAL)) + subroutine_c(subs)
        self.flags = [opt, "-fwrapv", "-fsanitize=shift-exponent,integer-divide-by-zero", "-fsanitize-recover=all", "-w", "-frounding-math"]
        if cc == "clang":
            self.flags += ["-fno-sanitize-link-runtime", "-ferror-limit=0"]
            self.flags.remove("-frounding-math")
        self.selftest_ok = None
        self._build()

    def _source(self, stub=()):
        src = [self.head]
        self.oplists = []
        for idx, p in enumerate(self.parts):
            text = p["text"]
            ops = scan_operands(text)
            self.oplists.append(ops)
            if idx in stub:
                src.append(f"static void beh_{idx}(const In *in, Out *out) {{ ub_flag |= 32; }}\n")
                continue
            t2, ch = fix_redeclarations(text)
            if ch:
                self.rewritten.append(p["name"])
            if len(ops) > NV or len(p.get("exports", ())) > NL:
                src.append(f"static void beh_{idx}(const In *in, Out *out) {{ ub_flag |= 32; }}\n")
                self.bad[idx] = "too many operands"
                continue
            src.append(f"/* {p['name']} */\n" + c_function(idx, t2, ops, p.get("exports", ())))
        n = len(self.parts)
        # self-test functions appended after the parts
        for k, (expr, a, b, ub) in enumerate(SELFTEST):
            src.append(f"static void beh_{n + k}(const In *in, Out *out) {{ volatile uint64_t a = in->v[0], b = in->v[1]; out->v[0] = (uint64_t)({expr}); }}\n")
        tot = n + len(SELFTEST)
        src.append(MAIN.replace("@NAL@", str(NAL)).replace("@TABLE@", ", ".join(f"beh_{i}" for i in range(tot)))
                   .replace("@NVARS@", ", ".join([str(len(o)) for o in self.oplists] + ["2"] * len(SELFTEST)))
                   .replace("@NLOC@", ", ".join([str(len(p.get("exports", ()))) for p in self.parts] + ["0"] * len(SELFTEST))))
        return "\n".join(src)

    def _compile(self, stub=()):
        path = os.path.join(self.dir, "oracle.c")
        with open(path, "w") as f:
            f.write(self._source(stub))
        exe = os.path.join(self.dir, "oracle")
        r = subprocess.run([self.cc] + self.flags + [path, "-o", exe, "-lm"], capture_output=True, text=True)
        return exe, r

    def _build(self):
        exe, r = self._compile()
        if r.returncode != 0:
            # map error lines to functions, stub them, rebuild once
            src = open(os.path.join(self.dir, "oracle.c")).read().split("\n")
            starts = []
            for ln, l in enumerate(src, 1):
                m = re.match(r"static void beh_(\d+)\(", l)
                if m:
                    starts.append((ln, int(m.group(1))))
            import bisect

            lines = [s[0] for s in starts]
            for m in re.finditer(r"oracle\.c:(\d+):\d+: error: (.*)", r.stderr):
                k = bisect.bisect_right(lines, int(m.group(1))) - 1
                if k >= 0 and starts[k][1] < len(self.parts):
                    self.bad.setdefault(starts[k][1], m.group(2)[:120])
            exe, r = self._compile(stub=set(self.bad))
            if r.returncode != 0:
                self.err = r.stderr[-3000:]
                return
        self.exe = exe
        self._selftest()

    def _selftest(self):
        n = len(self.parts)
        lines = []
        for k, (expr, a, b, ub) in enumerate(SELFTEST):
            lines.append(" ".join([f"{n + k:x}", "0", "0", "0", "0"] + ["0"] * NAL + [f"{a:x}", f"{b:x}"]))
        out = self._exec(lines)
        bad = []
        for (expr, a, b, ub), ol in zip(SELFTEST, out):
            got = int(ol.split()[0]) != 0
            if got != ub:
                bad.append((expr, a, b, ub, got))
        self.selftest_ok = not bad
        self.selftest_failures = bad

    def _exec(self, lines):
        pr = subprocess.run([self.exe], input="\n".join(lines) + "\n", capture_output=True, text=True)
        if pr.returncode != 0:
            raise RuntimeError(f"oracle binary failed rc={pr.returncode}: {pr.stderr[:300]}")
        return pr.stdout.split("\n")[:len(lines)]

    @staticmethod
    def state_line(idx, st):
        return " ".join([f"{idx:x}", f"{st['memseed']:x}", f"{st['pc']:x}", f"{st['npc']:x}", f"{st['cs']:x}"]
                        + [f"{v:x}" for v in st["al"]] + [f"{v:x}" for v in st["vals"]])

    def run(self, cases):
        """cases: list of (part_idx, state). -> list of result dicts"""
        lines = [self.state_line(i, st) for i, st in cases]
        outl = self._exec(lines)
        res = []
        for (idx, st), ol in zip(cases, outl):
            f = ol.split()
            nops = len(self.oplists[idx])
            nl = len(self.parts[idx].get("exports", ()))
            r = dict(ub=int(f[0]), jump_flag=int(f[1]), jump_target=int(f[2], 16), cancelled=int(f[3]),
                     al=[int(x, 16) for x in f[4:4 + NAL]], vals=[int(x, 16) for x in f[4 + NAL:4 + NAL + nops]],
                     locals=[int(x, 16) for x in f[4 + NAL + nops:4 + NAL + nops + nl]])
            mem = {}
            for x in f[5 + NAL + nops + nl:]:
                a, b = x.split(":")
                mem[int(a, 16)] = int(b, 16)
            r["mem"] = mem
            res.append(r)
        return res

    def close(self):
        shutil.rmtree(self.dir, ignore_errors=True)


# --------------------------------------------------------------------------- states
BND32 = [0, 1, 2, 3, 4, 5, 7, 8, 9, 15, 16, 17, 31, 32, 33, 63, 64, 65, 0x7F, 0x80, 0x81, 0xFF, 0x100, 0x7FFF, 0x8000, 0xFFFF, 0x10000,
         0x7FFFFFFF, 0x80000000, 0xFFFFFFFF, 0xFFFFFFFE, 0x80000001, 0x55555555, 0xAAAAAAAA, 0x00FF00FF, 0xFF00FF00, 0x12345678,
         0xFFFF8000, 0xFFFFFF80, 0x7F7F7F7F, 0x80808080, 0x00008000, 0x00000080]


def rv(rng: random.Random, w: int) -> int:
    c = rng.random()
    if c < 0.35:
        v = rng.choice(BND32)
        if w == 64:
            v = v | (rng.choice(BND32) << 32) if rng.random() < 0.7 else v
        return v & ((1 << w) - 1)
    if c < 0.45:
        return rng.getrandbits(w) & rng.getrandbits(w)
    if c < 0.55:
        return (rng.getrandbits(w) | rng.getrandbits(w)) & ((1 << w) - 1)
    if c < 0.62:
        return (-rng.randint(1, 130)) & ((1 << w) - 1)
    if c < 0.7:
        return rng.randint(0, 130)
    return rng.getrandbits(w)


def gen_state(rng: random.Random, ops: list[dict], small_imm=0.5) -> dict:
    st = dict(old={}, new={}, imm={}, pc=rv(rng, 32) & ~3, npc=0, cs=rv(rng, 32), memseed=rng.getrandbits(32), al=[])
    st["npc"] = (st["pc"] + 4 * rng.randint(1, 4)) & 0xFFFFFFFF
    for a in ALIASES:
        v = rv(rng, 64 if a in ALIAS64 else 32)
        st["al"].append(v)
        st["old"]["alias:" + a] = v
        st["new"]["alias:" + a] = v  # lenient point of DESIGN section 3
    vals = []
    for o in ops:
        if o["kind"] == "imm":
            v = rv(rng, 32)
            if rng.random() < small_imm:
                v = rng.randint(0, 40) if rng.random() < 0.7 else (-rng.randint(1, 40)) & 0xFFFFFFFF
            st["imm"][o["letter"]] = sx(32, v) if o["signed"] else v
            vals.append(v)
        else:
            k = o["key"]
            for bank in ("old", "new"):
                if k not in st[bank]:
                    st[bank][k] = rv(rng, o["w"] if o["w"] != 16 else 16)
            if o["kind"] == "expl" and not any(x["kind"] == "expl" and x["key"] == k and x["bank"] == "new" for x in ops):
                st["new"][k] = st["old"][k]  # lenient for plain explicit registers
            vals.append(st[o["bank"]][k] & ((1 << o["w"]) - 1))
    st["vals"] = vals
    return st


EDGE32 = [0x80, 0x7F, 0xFF, 0x8000, 0x7FFF, 0xFFFF, 0x80000000, 0x7FFFFFFF, 0xFFFFFFFF, 0x80008000, 0x7FFF8000, 0x80007FFF, 0x00010000, 0xFFFF0000, 0x00800080, 0]


def edge_states(rng: random.Random, ops: list[dict]) -> list[dict]:
    """16 states in which every register / immediate operand takes every type-boundary pattern once
    (minimum / maximum of the 8, 16 and 32 bit lanes), the other state components random."""
    out = []
    for j in range(len(EDGE32)):
        st = gen_state(rng, ops)
        for k, o in enumerate(ops):
            e = EDGE32[(j + 5 * k) % len(EDGE32)]
            if o["kind"] == "imm":
                st["imm"][o["letter"]] = sx(32, e) if o["signed"] else e
                st["vals"][k] = e
                continue
            if o["w"] == 64:
                e = e | (EDGE32[(j + 5 * k + 7) % len(EDGE32)] << 32)
            e &= (1 << o["w"]) - 1
            st[o["bank"]][o["key"]] = e
            if o["kind"] == "expl" and o["bank"] == "old":
                st["new"][o["key"]] = e
            st["vals"][k] = e
        # several tokens may name one handle: keep vals consistent with the banks
        for k, o in enumerate(ops):
            if o["kind"] != "imm":
                st["vals"][k] = st[o["bank"]][o["key"]] & ((1 << o["w"]) - 1)
        out.append(st)
    return out
