"""E1 - compile harness: imports the compiler from the tree under test, attaches hooks
(plain setattr, no repository edit), and runs cases in children forked from a pristine parent."""
import contextlib
import io
import os
import pickle
import select
import signal
import sys
import tempfile
import time
import traceback

from . import common

_SETUP_DONE = False


def setup():
    """chdir into the tree under test (Conf.get_path resolves <REPO> through git in the cwd),
    put it first on sys.path, silence logging/tqdm."""
    global _SETUP_DONE
    if _SETUP_DONE:
        return
    os.chdir(common.REPO)
    sys.path.insert(0, common.REPO)
    deps = os.path.join(common.VERIF_DIR, ".deps")
    if os.path.isdir(deps) and deps not in sys.path:
        sys.path.append(deps)
    with contextlib.redirect_stdout(io.StringIO()):
        import rzilcompiler.Helper as H
    H.LOG_LEVEL = -1
    import rzilcompiler.Parser as PM
    import rzilcompiler.Compiler as CM

    def _tq(it=None, *a, **k):
        return it

    PM.tqdm = _tq
    CM.tqdm = _tq
    mod = sys.modules["rzilcompiler"]
    if not os.path.abspath(mod.__file__).startswith(common.REPO):
        raise RuntimeError(f"rzilcompiler imported from {mod.__file__}, not from {common.REPO}")
    _SETUP_DONE = True


def new_compiler(layout: str = "rs"):
    setup()
    from rzilcompiler.ArchEnum import ArchEnum
    from rzilcompiler.Compiler import Compiler
    from rzilcompiler.Transformer.RZILTransformer import CodeFormat

    fmt = CodeFormat.READ_STATEMENTS if layout == "rs" else CodeFormat.EXEC_CLASSES
    with contextlib.redirect_stdout(io.StringIO()):
        c = Compiler(ArchEnum.HEXAGON, fmt)
    return c


def sub_defs(compiler) -> dict:
    from rzilcompiler.Transformer.Hybrids.SubRoutine import SubRoutineInitType

    return {n: s.il_init(SubRoutineInitType.DEF) for n, s in compiler.sub_routines.items()}


def sub_sigs(compiler) -> dict:
    """name -> {"ret": (signed,width)|None, "params": [(name, kind, signed, width)]} from the registered objects."""
    from rzilcompiler.Transformer.ValueType import VTGroup

    out = {}
    for n, s in compiler.sub_routines.items():
        ps = []
        for p in s.ops:
            vt = p.value_type
            if vt.group & (VTGroup.EXTERNAL | VTGroup.VOID):
                ps.append((p.get_name(), "ext", None, None))
            else:
                ps.append((p.get_name(), "pure", bool(vt._signed), int(vt._bit_width)))
        rt = s.value_type
        ret = None if rt.group & (VTGroup.VOID | VTGroup.EXTERNAL) else (bool(rt._signed), int(rt._bit_width))
        out[n] = {"ret": ret, "params": ps}
    return out


def exc_info(e: BaseException) -> dict:
    inner = e
    seen = 0
    while getattr(inner, "orig_exc", None) is not None and seen < 5:
        inner = inner.orig_exc
        seen += 1
    return {"type": type(e).__name__, "inner": type(inner).__name__, "msg": str(inner)[:300]}


# --------------------------------------------------------------------------- hooks
class Trace:
    """Event sink for the hooks. One per child; returned with the case result."""

    def __init__(self):
        self.casts = []  # (src_signed, src_w, dst_signed, dst_w, text)
        self.c11 = 0
        self.promo = 0
        self.contract_violations = []  # (contract, detail)
        self.rules = {}
        self.meta = None
        self.ops_added = []
        self.ops_removed = []
        self.hyb = []


TRACE = Trace()
_HOOKS = False


def install_hooks():
    """Attach the monitors to the real classes/functions. Idempotent."""
    global _HOOKS
    if _HOOKS:
        return
    setup()
    _HOOKS = True
    from . import contracts

    contracts.install(TRACE)


def reset_trace():
    global TRACE
    t = Trace()
    TRACE.__dict__.update(t.__dict__)
    return TRACE


# --------------------------------------------------------------------------- compile cases
def compile_stmt_case(compilers: dict, case: dict) -> dict:
    """case: {text, layout='rs', subs=[(name, ret, params, body)...], aged=int}
    Runs in a forked child; may freely mutate the compiler."""
    c = compilers[case.get("layout", "rs")]
    if case.get("mark"):
        from . import findings

        findings.install_markers()
    tr = reset_trace()
    res = {"ok": False}
    try:
        with contextlib.redirect_stdout(io.StringIO()):
            for _ in range(case.get("aged", 0)):
                # age the temporaries counter the way earlier compilations would
                c.transformer.il_ops_holder.hybrid_op_count += 1
            for name, ret, params, body in case.get("subs", []):
                c.add_sub_routine(name, ret, params, body)
            # operand events of the sub-routine bodies do not belong to the statement
            del tr.ops_added[:]
            del tr.ops_removed[:]
            del tr.hyb[:]
            out = c.compile_c_stmt(case["text"])
        res["ok"] = True
        res["rzil"] = out
        res["meta"] = tr.meta
    except BaseException as e:  # noqa
        if isinstance(e, (KeyboardInterrupt, SystemExit)):
            raise
        res["exc"] = exc_info(e)
    if case.get("subs"):
        res["sub_defs"] = {n: d for n, d in sub_defs(c).items() if n in {s[0] for s in case["subs"]}}
        res["sub_sigs"] = {n: d for n, d in sub_sigs(c).items() if n in {s[0] for s in case["subs"]}}
    res["trace"] = {
        "casts": tr.casts[:400],
        "contract_violations": tr.contract_violations[:20],
        "rules": tr.rules,
        "c11": tr.c11,
        "promo": tr.promo,
        "ops_added": tr.ops_added[:600],
        "ops_removed": tr.ops_removed[:200],
        "hyb": tr.hyb[:100],
    }
    return res


def compile_insn_case(compilers: dict, case: dict) -> dict:
    """case: {name, behaviors:[...], layout}. parse_single (the real per-task function) + transform_insn."""
    from rzilcompiler.Parser import InsnParsingBundle, parse_single

    c = compilers[case.get("layout", "rs")]
    if case.get("mark"):
        from . import findings

        findings.install_markers()
    tr = reset_trace()
    res = {"ok": False, "name": case["name"]}
    try:
        with contextlib.redirect_stdout(io.StringIO()):
            parsed = parse_single(InsnParsingBundle(case["grammar"], case["name"], case["behaviors"]))[case["name"]]
            if parsed.exception:
                res["exc"] = {"type": parsed.exception.name, "inner": parsed.exception.name, "msg": "parse", "stage": "parse"}
                return res
            insn = c.transform_insn(case["name"], parsed)
        res["ok"] = True
        res["rzil"] = list(insn.rzil)
        res["meta"] = [list(m) for m in insn.meta]
        res["needs_hi"] = [bool(x) for x in insn.needs_hi]
        res["needs_pkt"] = [bool(x) for x in insn.needs_pkt]
        res["getter"] = {k: list(v) for k, v in insn.getter_rzil.items()}
        res["insn_name"] = insn.name
    except BaseException as e:  # noqa
        if isinstance(e, (KeyboardInterrupt, SystemExit)):
            raise
        res["exc"] = exc_info(e)
        res["exc"]["stage"] = "transform"
    res["trace"] = {
        "casts": tr.casts[:400],
        "contract_violations": tr.contract_violations[:20],
        "rules": tr.rules,
        "c11": tr.c11,
        "promo": tr.promo,
    }
    return res


# --------------------------------------------------------------------------- fork-per-case engine
def _run_one_forked(fn, case, timeout):
    r, w = os.pipe()
    pid = os.fork()
    if pid == 0:
        try:
            os.close(r)
            try:
                out = fn(case)
            except BaseException as e:  # noqa
                out = {"ok": False, "harness_error": "".join(traceback.format_exception(e))[-1500:]}
            data = pickle.dumps(out)
            with os.fdopen(w, "wb") as f:
                f.write(data)
        finally:
            os._exit(0)
    os.close(w)
    chunks = []
    deadline = time.time() + timeout
    timed_out = False
    while True:
        left = deadline - time.time()
        if left <= 0:
            timed_out = True
            break
        rl, _, _ = select.select([r], [], [], min(left, 5.0))
        if not rl:
            continue
        b = os.read(r, 1 << 16)
        if not b:
            break
        chunks.append(b)
    os.close(r)
    if timed_out:
        try:
            os.kill(pid, signal.SIGKILL)
        except ProcessLookupError:
            pass
        os.waitpid(pid, 0)
        return {"ok": False, "timeout": True}
    os.waitpid(pid, 0)
    try:
        return pickle.loads(b"".join(chunks))
    except Exception as e:  # child died
        return {"ok": False, "harness_error": f"child produced no result: {e}"}


def run_forked(fn, cases: list, nproc: int | None = None, timeout: float = 120.0, per_case_fork: bool = True) -> list:
    """Run fn(case) for every case, each in its own child forked from *this* process's current
    state (so every case sees the same pristine compiler). Results come back in case order."""
    nproc = max(1, min(nproc or common.NPROC, len(cases) or 1))
    tmpd = tempfile.mkdtemp(prefix="verif-run-")
    pids = []
    sys.stdout.flush()
    sys.stderr.flush()
    for k in range(nproc):
        pid = os.fork()
        if pid == 0:
            code = 0
            try:
                out = []
                for i in range(k, len(cases), nproc):
                    if per_case_fork:
                        out.append((i, _run_one_forked(fn, cases[i], timeout)))
                    else:
                        try:
                            out.append((i, fn(cases[i])))
                        except BaseException as e:  # noqa
                            out.append((i, {"ok": False, "harness_error": "".join(traceback.format_exception(e))[-1500:]}))
                with open(os.path.join(tmpd, f"w{k}.pkl"), "wb") as f:
                    pickle.dump(out, f)
            except BaseException:  # noqa
                traceback.print_exc()
                code = 3
            finally:
                os._exit(code)
        pids.append(pid)
    results = [None] * len(cases)
    for k, pid in enumerate(pids):
        os.waitpid(pid, 0)
        p = os.path.join(tmpd, f"w{k}.pkl")
        try:
            with open(p, "rb") as f:
                for i, r in pickle.load(f):
                    results[i] = r
            os.unlink(p)
        except Exception as e:
            common.log(f"worker {k} lost: {e}")
    try:
        os.rmdir(tmpd)
    except OSError:
        pass
    for i, r in enumerate(results):
        if r is None:
            results[i] = {"ok": False, "harness_error": "worker lost"}
    return results


def pmap(fn, items: list, nproc: int | None = None) -> list:
    """Plain parallel map in forked workers (no per-item fork); for pure-Python oracle work."""
    return run_forked(fn, items, nproc=nproc, per_case_fork=False)
