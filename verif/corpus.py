"""Bundled corpus access: behaviours through the repository's own loader, compile through
parse_single + transform_insn in forked children, stratified sampling."""
import json
import os
import random
import re

from . import common, harness


def load_behaviors(compiler) -> dict:
    """name -> [part texts], via the real load_insn_behavior()."""
    pp = compiler.preprocessor
    type(pp).behaviors = dict()
    pp.load_insn_behavior()
    return dict(pp.behaviors)


def grammar_text() -> str:
    with open(os.path.join(common.REPO, "Resources/Hexagon/grammar.lark")) as f:
        return f.read()


def base_c_subs() -> dict:
    with open(os.path.join(common.REPO, "Resources/Hexagon/sub_routines.json")) as f:
        return json.load(f)["sub_routines"]


def stratified_sample(behaviors: dict, n: int, seed: int, must=()) -> list[str]:
    """Sample by name prefix (instruction class) so every family is represented; always keep
    two-part instructions' families, users of sub-routines and `must`."""
    rng = random.Random(seed)
    names = sorted(behaviors)
    groups = {}
    for nm in names:
        groups.setdefault(re.match(r"[A-Za-z]+\d*", nm).group(0), []).append(nm)
    chosen = set(m for m in must if m in behaviors)
    subs = ("clz32", "clo32", "clz64", "clo64", "fbrev", "revbit", "conv_round", "fcirc_add", "set_usr_field", "get_usr_field", "trap", "sextract64", "deposit64")
    pools = {"two": [nm for nm in names if len(behaviors[nm]) == 2],
             "sub": [nm for nm in names if any(s + "(" in b for b in behaviors[nm] for s in subs)],
             "loop": [nm for nm in names if any("for (" in b or "for(" in b for b in behaviors[nm])],
             "stmtexpr": [nm for nm in names if any("({" in b for b in behaviors[nm])],
             "float": [nm for nm in names if nm.startswith("F2_")]}
    for k, pool in pools.items():
        rng.shuffle(pool)
        chosen.update(pool[: max(6, n // 12)])
    keys = sorted(groups)
    while len(chosen) < n:
        progressed = False
        for k in keys:
            g = groups[k]
            if g:
                chosen.add(g.pop(rng.randrange(len(g))))
                progressed = True
                if len(chosen) >= n:
                    break
        if not progressed:
            break
    return sorted(chosen)


def compile_corpus(compilers: dict, behaviors: dict, names: list[str], layout="rs", timeout=300.0):
    g = grammar_text()
    cases = [dict(name=nm, behaviors=behaviors[nm], layout=layout, grammar=g) for nm in names]
    # long behaviours first: better balance over the workers
    order = sorted(range(len(cases)), key=lambda i: -sum(len(b) for b in cases[i]["behaviors"]))
    res = harness.run_forked(lambda c: harness.compile_insn_case(compilers, c), [cases[i] for i in order], timeout=timeout)
    out = [None] * len(cases)
    for i, r in zip(order, res):
        out[i] = r
    return out
