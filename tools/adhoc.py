#!/venv/bin/python
"""tools/adhoc.py 'prog text' ['prog text' ...]   (or -f file with one program per line)
Exploration helper: compiles each program in a pristine fork, runs the static checkers (well-formed, ownership, sorts) and the
IL-vs-C differential on 64 states + edge states, and prints the verdicts. Writes nothing under evidence/."""
import os
import sys

V = os.path.dirname(os.path.dirname(os.path.abspath(__file__)))
sys.path.insert(0, V)
os.environ.setdefault("PYTHONHASHSEED", "0")
from verif import common, diffcheck, outcheck, pipeline  # noqa
from verif import diff as D  # noqa


def main():
    args = sys.argv[1:]
    if args and args[0] == "-f":
        texts = [l.strip() for l in open(args[1]) if l.strip() and not l.startswith("#")]
    else:
        texts = args
    layout = os.environ.get("LAYOUT", "rs")
    S = pipeline.Session(layouts=(layout,))
    res = S.compile_stmts([dict(text=t, layout=layout) for t in texts])
    progs = []
    for t, r in zip(texts, res):
        if not r.get("ok"):
            print(f"REJECTED {t}\n    {r.get('exc')}")
            continue
        subs = S.subs_for(r.get("sub_defs"), r.get("sub_sigs"))
        oc = outcheck.check_output(t, r["rzil"], subs)
        stat = {k: oc[k] for k in ("syntax", "wellformed", "ownership", "sorts") if oc.get(k)}
        progs.append((t, r, stat))
    results, info = S.differential([D.Prog(f"p{i}", t, r["rzil"]) for i, (t, r, _) in enumerate(progs)], 64, seed=common.seed())
    for (t, r, stat), x in zip(progs, results):
        print(f"{x.verdict().upper():8} ok={x.ok} diff={x.diff} ub={x.ub} ilsort={x.ilsort} defuse={x.defuse} unmod={x.unmodelled} static={stat or 'clean'} cinvalid={x.c_invalid}\n    {t}")
        for f in x.fail_states[:2]:
            print("      ", str(f)[:400])
        if os.environ.get("SHOW"):
            print(r["rzil"])


main()
