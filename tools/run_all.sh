#!/bin/sh
# runs every quick (or $1) check sequentially; prints one line per check
TIER=${1:-quick}
cd "$(dirname "$0")/.."
for id in C01 C02 C03 C04 C05 C06 C07 C08 C09 C10 C11 C12 C13 C14 C15 C16 C17 C18 C19 C20; do
  s=$(date +%s)
  out=$(bin/check $id --tier $TIER 2>&1); rc=$?
  e=$(date +%s)
  echo "$id rc=$rc $((e-s))s $(echo "$out" | grep -c '^VIOLATION') violations; $(echo "$out" | grep -c '^KNOWN-FINDING') known; last: $(echo "$out" | tail -1 | cut -c1-120)"
  if [ $rc -ne 0 ]; then echo "$out" | grep -E "^VIOLATION|^INCONCLUSIVE" | head -5 | cut -c1-400; fi
done
