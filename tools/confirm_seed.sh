#!/bin/sh
# tools/confirm_seed.sh <ID>   : confirm an agent-made seed in its own worktree /tmp/wt_<ID> (suite passes, demo fails with / passes without the change)
ID=$1; WT=/tmp/wt_$ID; SD=/tmp/seed_$ID
cd $WT || exit 2
git diff > /tmp/confirm_$ID.diff
if ! diff -q /tmp/confirm_$ID.diff $SD/patch.diff >/dev/null; then echo "$ID: worktree diff differs from patch.diff"; fi
S=$(/venv/bin/python -m pytest -q -p no:cacheprovider --timeout=900 2>&1 | tail -1)
/venv/bin/python $SD/demo.py > /tmp/confirm_$ID.with 2>&1; W=$?
git stash -q; /venv/bin/python $SD/demo.py > /tmp/confirm_$ID.without 2>&1; WO=$?; git stash pop -q
echo "$ID suite: $S | demo with change: exit $W | without: exit $WO | lines changed: $(grep -c '^[-+][^-+]' $SD/patch.diff)"
