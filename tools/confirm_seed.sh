#!/bin/sh
# tools/confirm_seed.sh <ID>   : confirm an agent-made seed in its own worktree /tmp/wt_<ID>
# (worktree reset to HEAD + patch.diff; suite passes with the change; demo.py exits 1 with and 0 without the change)
ID=$1; WT=/tmp/wt_$ID; SD=/tmp/seed_$ID
cd $WT || exit 2
git checkout -q -- . && git clean -fdq && git apply $SD/patch.diff || { echo "$ID: patch does not apply"; exit 2; }
S=$(/venv/bin/python -m pytest -q -p no:cacheprovider --timeout=900 2>&1 | tail -1)
/venv/bin/python $SD/demo.py > /tmp/confirm_$ID.with 2>&1; W=$?
git apply -R $SD/patch.diff; git checkout -q -- Resources 2>/dev/null
/venv/bin/python $SD/demo.py > /tmp/confirm_$ID.without 2>&1; WO=$?
git checkout -q -- . ; git apply $SD/patch.diff
echo "$ID suite: $S | demo with change: exit $W | without: exit $WO | lines changed: $(grep -c '^[-+][^-+]' $SD/patch.diff)"
