#!/venv/bin/python
"""tools/try_seed.py <seed-name> <property> <check> [<check>...]
Stores an agent-made change under /verif/seeded/<seed-name>/ (from /tmp/seed_<seed-name> if not there yet), applies it to /repo,
runs the given quick checks, undoes it, and records what happened in meta.json."""
import json
import os
import shutil
import subprocess
import sys

V = os.path.dirname(os.path.dirname(os.path.abspath(__file__)))
name, prop, checks = sys.argv[1], sys.argv[2], sys.argv[3:]
sd = os.path.join(V, "seeded", name)
src = f"/tmp/seed_{name}"
os.makedirs(sd, exist_ok=True)
for f in ("patch.diff", "demo.py", "notes.md"):
    if os.path.exists(os.path.join(src, f)) and not os.path.exists(os.path.join(sd, f)):
        shutil.copy(os.path.join(src, f), os.path.join(sd, f))
meta_p = os.path.join(sd, "meta.json")
meta = json.load(open(meta_p)) if os.path.exists(meta_p) else {"property": prop, "runs": []}
WT = os.environ.get("WT")  # run against the agent's worktree (patch already applied there) instead of patching /repo
env = dict(os.environ)
if WT:
    env["VERIF_REPO"] = WT
    d = subprocess.run(["git", "-C", WT, "diff"], capture_output=True, text=True).stdout
    def changed(t):  # the changed lines only: hunk positions move when /repo gets other commits
        return [l for l in t.split("\n") if l[:1] in "+-" and not l.startswith(("+++", "---"))]

    if changed(d) != changed(open(os.path.join(sd, "patch.diff")).read()):
        raise SystemExit(f"{name}: {WT} does not contain exactly patch.diff")
else:
    subprocess.run(["git", "-C", "/repo", "diff", "--quiet"], check=True)
try:
    if not WT:
        subprocess.run(["git", "-C", "/repo", "apply", os.path.join(sd, "patch.diff")], check=True)
    for c in checks:
        r = subprocess.run(["bin/check", c, "--tier", os.environ.get("TIER", "quick")], cwd=V, capture_output=True, text=True, env=env)
        v = [l for l in r.stdout.split("\n") if l.startswith("VIOLATION")]
        print(f"{name} on {c}: exit {r.returncode}; {len(v)} VIOLATION lines; first: {(v[0][:300] if v else r.stdout.strip().split(chr(10))[-1][:200])}")
        meta["runs"].append({"check": c, "tier": os.environ.get("TIER", "quick"), "exit": r.returncode, "violations": len(v), "first": v[0][:400] if v else None})
finally:
    if not WT:
        subprocess.run(["git", "-C", "/repo", "checkout", "--", "."], check=True)
json.dump(meta, open(meta_p, "w"), indent=1)
# evidence files were rewritten by runs on a modified tree: restore the committed ones
for c in checks:
    subprocess.run(["git", "-C", V, "checkout", "--", f"evidence/{c}.json"], check=False)
