#!/bin/sh
# tools/sweep.sh <tier> <seed>...   : every check for each seed from a fresh process; evidence restored afterwards
TIER=$1; shift
cd "$(dirname "$0")/.."
for seed in "$@"; do
for id in C01 C02 C03 C04 C05 C06 C07 C08 C09 C10 C11 C12 C13 C14 C15 C16 C17 C18 C19 C20; do
  s=$(date +%s)
  out=$(VERIF_SEED=$seed bin/check $id --tier $TIER 2>&1); rc=$?
  e=$(date +%s)
  echo "seed=$seed $id rc=$rc $((e-s))s $(echo "$out" | grep -c '^VIOLATION') violations; $(echo "$out" | grep -c '^KNOWN-FINDING') known"
  if [ $rc -ne 0 ]; then echo "$out" | grep -E "^VIOLATION|^INCONCLUSIVE" | head -4 | cut -c1-500; mkdir -p /tmp/sweep_replays; cp -r replays/$id /tmp/sweep_replays/${id}_seed$seed 2>/dev/null; fi
done
done
git checkout -- evidence
