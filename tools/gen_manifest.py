#!/venv/bin/python
"""Regenerates MANIFEST.json from the table below (keeps it valid at all times)."""
import json
import os

HERE = os.path.dirname(os.path.dirname(os.path.abspath(__file__)))

CHECKS = {
    "C04": dict(
        level="exploration", ref="DESIGN.md section 4, C04",
        text="Runtime contracts on the real c11_cast/promoted_type evaluated over the whole finite domain (thorough: all 4096x4096 "
             "ordered (signedness,width) pairs, exhaustive; quick: the 24 producible types squared + 20000 random pairs). The same "
             "contracts stay attached in every other check's workload. Exhaustive enumeration of a finite domain is the strongest "
             "thing runtime observation can give here.",
        note="Trusted: the 8-line independent statement of C11 6.3.1.8 with rank = width in verif/contracts.py.",
        technique="runtime contracts on the real functions, exhaustive input enumeration"),
}

NOT_YET = {}


def main():
    props = [json.loads(l) for l in open(os.path.join(HERE, "properties.jsonl"))]
    checks = []
    na = []
    for p in props:
        pid = p["id"]
        if pid in CHECKS:
            c = CHECKS[pid]
            checks.append({
                "property_id": pid,
                "quick_cmd": f"bin/check {pid} --tier quick",
                "thorough_cmd": f"bin/check {pid} --tier thorough",
                "evidence_file": f"evidence/{pid}.json",
                "replay_cmd_template": f"bin/check {pid} --replay {{path}}",
                "engine": "verif",
                "level_claimed": {"category": c["level"], "text": c["text"], "design_ref": c["ref"]},
                "level_note": c["note"],
                "technique": c["technique"],
            })
        else:
            na.append({"property_id": pid, "reason": NOT_YET.get(pid, "check not built yet in this round (runtime-monitoring design exists in DESIGN.md)")})
    man = {
        "version": 1,
        "setup_cmd": "true",
        "hooks": {
            "guard": "RZIL_COMPILER_VERIF",
            "enable": "none needed: all monitors are attached from the harness process with setattr on the imported classes/modules (verif/contracts.py); the repository carries no hook code",
            "baseline_off_cmd": "cd /repo && /venv/bin/python -m pytest -ra -q -p no:cacheprovider --timeout=900 --continue-on-collection-errors",
            "source_commits": [],
            "add_only": True,
        },
        "engines": [
            {"name": "verif", "path": "verif/", "serves_properties": sorted(CHECKS), "kind_free_text":
                "Python package: compile harness with fork-per-case isolation and runtime contracts (E1), IL front end = parser + "
                "well-formedness + ownership + sort checker + evaluator (E2), C oracle = behaviour text compiled by gcc -O0 with UBSan "
                "handlers (E3), generators (E4/E5), independent dialect parser (E6)"},
        ],
        "checks": checks,
        "not_applicable": na,
        "notes": "Family: runtime monitoring and sanitizers. Every check observes executions of the real compiler; exit 0 held / 1 VIOLATION / 2 INCONCLUSIVE.",
    }
    with open(os.path.join(HERE, "MANIFEST.json"), "w") as f:
        json.dump(man, f, indent=1)
        f.write("\n")


if __name__ == "__main__":
    main()
