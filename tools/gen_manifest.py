#!/venv/bin/python
"""Regenerates MANIFEST.json from the table below (keeps it valid at all times)."""
import json
import os

HERE = os.path.dirname(os.path.dirname(os.path.abspath(__file__)))

DIFF_NOTE = ("Trusted base: gcc -O0 -fwrapv with custom UBSan handlers as C reference (self-tested per run), the IL semantics of DESIGN appendix B, "
             "the architectural / plugin-macro model of DESIGN section 3; states are sampled (boundary-biased + directed), not enumerated.")
CHECKS = {
    "C01": dict(level="exploration", ref="DESIGN.md section 4 C01",
        text="Differential execution of the real compiler's output: every accepted part of the bundled corpus (thorough: all 2181 definitions; quick: stratified sample of 200) "
             "and the 13 sub-routines are compiled in pristine forked children, the emitted IL is executed by an IL evaluator and compared with the behaviour text compiled as C on "
             "64/256 boundary-biased states per part (circular-buffer boundary states for every fcirc_add user). The executed C text of 10 bundled routines is also compared with reference models "
             "of what the routines mean (verif/submodels.py). Sampling of states is what runtime observation can give for 'all initial states'.",
        note=DIFF_NOTE, technique="differential execution: IL interpreter vs C text compiled with gcc + UBSan handlers"),
    "C02": dict(level="exploration", ref="DESIGN.md section 4 C02",
        text="All 1112 operator x type x type cells at depth 1 (exhaustive over cells), depth-2 combinations and random trees; values boundary+random, exhaustive 8-bit operands in thorough; "
             "every program compiled by the real compiler and executed against C. Known cast defect attributed by counterfactual re-execution only.",
        note=DIFF_NOTE, technique="differential execution over an exhaustive operator/type matrix"),
    "C03": dict(level="exploration", ref="DESIGN.md section 4 C03",
        text="Runtime contract on every Cast.il_exec (fill bit) plus differential execution of all 8x8(+bool) type pairs in nine conversion contexts incl. generated sub-routine argument/return; all 256 values for 8-bit sources.",
        note=DIFF_NOTE, technique="runtime contract on Cast.il_exec + differential execution of a conversion matrix"),
    "C04": dict(
        level="exploration", ref="DESIGN.md section 4 C04",
        text="Runtime contracts on the real c11_cast/promoted_type evaluated over the whole finite domain (thorough: all 4096x4096 "
             "ordered (signedness,width) pairs, exhaustive; quick: the 24 producible types squared + 20000 random pairs). The same "
             "contracts stay attached in every other check's workload. Exhaustive enumeration of a finite domain is the strongest "
             "thing runtime observation can give here.",
        note="Trusted: the 8-line independent statement of C11 6.3.1.8 with rank = width in verif/contracts.py.",
        technique="runtime contracts on the real functions, exhaustive input enumeration"),
    "C05": dict(level="exploration", ref="DESIGN.md section 4 C05",
        text="Generated statement trees (all 11 assignment operators x 32/64-bit targets, loops with every trip count 0..8, nested/data-dependent loops, if/else chains, register/local/memory interleavings) "
             "executed against C; the evaluator reports arms and trip counts actually covered.",
        note=DIFF_NOTE, technique="differential execution with arm / trip-count coverage monitor"),
    "C06": dict(level="exploration", ref="DESIGN.md section 4 C06",
        text="Placements of postfix ++/--, calls (also value-unused) and statement-expressions in every position class, executed against C; def-use monitor on hybrid temporaries; once-only monitor through a generated callee that increments a by-reference register.",
        note=DIFF_NOTE, technique="differential execution + def-use and once-only monitors in the IL interpreter"),
    "C08": dict(level="exploration", ref="DESIGN.md section 4 C08",
        text="Bundled and randomly generated sub-routines registered through Compiler.add_sub_routine, 1..4 calls per expression, calls as arguments, fresh vs aged compiler (temporary numbering 0/1/7/40); callee bodies of the same compiler instance inlined in the caller's namespace and executed against the C call; the caller's live local is compared.",
        note=DIFF_NOTE, technique="differential execution with by-name inlining of the compiled callee bodies"),
    "C09": dict(level="exploration", ref="DESIGN.md section 4 C09",
        text="Literal spellings around 2^7..2^64 x suffixes, folded unary/binary/comparison operators, constant ?:, sizeof: the compiler's folded output executed against gcc's evaluation of the same text; must-reject monitor for inexact/zero division; dead-operand monitor (well-formedness + ownership of outputs).",
        note=DIFF_NOTE, technique="differential execution (compile-time folded vs gcc), must-raise monitor, offline output checkers"),
    "C10": dict(level="translation_validation", ref="DESIGN.md section 4 C10, appendix B",
        text="Per-output validation: every emitted text (corpus, sub-routine definitions, generated programs) is parsed back and every node of the effect - all arms, loop bodies, inlined callees - is typed with the rules of rz_il_validate. Decides the property for each produced output completely (all paths), for the outputs the workload produces.",
        note="Trusted: this framework's mirror of RzIL typing (DESIGN appendix B); operand widths from the documented register classes.",
        technique="offline sort checker over recorded compiler outputs"),
    "C11": dict(level="translation_validation", ref="DESIGN.md section 4 C11",
        text="Per-output validation in both layouts: structural checker (declaration-with-initialiser or final return, declared once and before use, literals fit 64 bit), clang -fsyntax-only on every body against a stub plugin header, and the companion record rules (needs_hi/needs_pkt, getter names unique).",
        note="Trusted: the stub plugin header in verif/outcheck.py (types of the IL/plugin macros).",
        technique="offline C well-formedness checker + clang -fsyntax-only on recorded outputs"),
    "C12": dict(level="translation_validation", ref="DESIGN.md section 4 C12",
        text="Per-output validation in BOTH layouts: ownership counter over every emitted text (one un-DUPed use per pure variable, exactly one use per effect variable, at most one per borrowed parameter, nothing unused).",
        note="Trusted: every syntactic occurrence in a later initialiser is a use (the IL tree is built eagerly).",
        technique="offline linear-use counter over recorded compiler outputs"),
    "C16": dict(level="exploration", ref="DESIGN.md section 4 C16",
        text="Same behaviour compiled by two pristine compilers (both CodeFormat values): acceptance and attributes equal, both texts pass the output checkers, resolved effect terms structurally identical, IL evaluator reaches identical final states.",
        note="Trusted: IL evaluator for the semantic backstop; structural identity is checked on the resolved terms modulo DUP.",
        technique="two-configuration differential (structural identity + execution)"),
    "C17": dict(level="exploration", ref="DESIGN.md section 4 C17, appendix D",
        text="Grammar tree vs an independent precedence-climbing parser on all 324 ordered operator pairs, unary/cast/postfix matrices, token-class probes, random nesting <= 6 and corpus texts; determinism across fresh processes with different PYTHONHASHSEED, fresh/reused parser objects and parse order.",
        note="Trusted: verif/cparse.py as statement of C's expression/statement structure and of the documented operand token patterns.",
        technique="reference-parser comparison + cross-process determinism monitor"),
    "C07": dict(level="exploration", ref="DESIGN.md section 4 C07, appendix C",
        text="One program per operand spelling (328: register class x letter x single/pair x V/N, explicit registers with/without _NEW, 25 aliases, 8 immediate letters, 8 loads, 4 stores, jumps, PC): "
             "structural monitor on the handles/flags/casts the emitted effect resolves vs an independent operand table, and value monitor (IL vs C with independent values in old and new banks).",
        note=DIFF_NOTE + " Lenient point: plain alias/explicit registers that are read and assigned start with equal banks.", technique="structural trace monitor against an independent operand table + differential execution over register banks"),
    "C13": dict(level="exploration", ref="DESIGN.md section 4 C13",
        text="Attribute list of every part compared with the set recomputed from the part's own text by the independent parser: compiled first in a pristine fork, and again in long-lived children after random histories "
             "(failing inputs interleaved, two compilers, both entry points) with an invariant hook that all flags incl. the written-predicates list are reset after every compile event.",
        note="Trusted: verif/cparse.py attribute rules (text-level reading of the property).", technique="reference-model monitor + invariant at a hook under random histories"),
    "C14": dict(level="fault_enumeration", ref="DESIGN.md section 4 C14",
        text="Reference = item compiled first in a pristine fork; subject = same item after recorded histories in long-lived processes: a failing input of each of four kinds at EVERY position of short histories (enumerated), "
             "random long histories with failures, injected failpoints in rule callbacks, four entry points, two compilers. Compared: acceptance, text modulo temporaries/comments, attributes; state monitor after every event.",
        note="Trusted: renaming of h_tmp* by first appearance; group-flag drift of shared types is informational only.", technique="history/fault metamorphic monitor with injected failpoints and state invariants"),
    "C15": dict(level="exploration", ref="DESIGN.md section 4 C15",
        text="Must-raise monitor: 21 untranslated constructs x 9 statement / 11 expression positions; conservation monitor on accepted programs (side-effect inventory by the independent parser vs operations in the emitted effect, created-vs-declared effects through the add_op hook, every effect sequenced exactly once); differential execution of the accepted programs.",
        note=DIFF_NOTE, technique="must-raise monitor + conservation (created = sequenced + discarded) monitor + differential execution"),
    "C18": dict(level="fault_enumeration", ref="DESIGN.md section 4 C18",
        text="Real Parser.parse runs in child processes with patched pool size (1..16) and an instrumented per-task function (pid/start/end log, injected delays so that completion order is a random permutation), inputs with broken behaviours of 7 kinds at random positions; "
             "each run's returned dict and task log are checked against the sequential in-process parse (keys, order, per-part trees, error names, exactly-once execution).",
        note="Trusted: tree equality through the digest of Tree.pretty(); worker death is out of scope (watchdog => inconclusive).", technique="offline history checker over recorded pool runs with injected delays and faulty inputs"),
    "C19": dict(level="exploration", ref="DESIGN.md section 4 C19",
        text="Contracts on split_resolved_shortcode / split_compounds / load_insn_behavior against an independent bracket- and string-aware splitter: all 2181 bundled lines (72 compounds), 20000/300000 generated lines incl. malformed variants, loader on a scratch file.",
        note="Trusted: the independent splitter's definition of a well-formed line; raising is always allowed.", technique="runtime contracts against an independent reference implementation"),
    "C20": dict(level="exploration", ref="DESIGN.md section 4 C20",
        text="gcc -E as reference preprocessor: bundled resolved file vs gcc output token-wise for all 2181 instructions; contract on replace_do_while_0 vs a brace-matching stripper on generated bodies; patch-merge obligations; the real pipeline run in a scratch git clone on the bundled sources (must reproduce the bundled files) and on generated macro/patch/shortcode sets (must equal gcc -E under the independently merged macro set).",
        note="Trusted: gcc -E -P -undef -nostdinc as 'standard C preprocessing'; token-wise comparison; #line lines ignored.", technique="differential against gcc -E + contracts + pipeline runs in scratch clones"),
}

NOT_YET = {}


def main():
    props = [json.loads(l) for l in open(os.path.join(HERE, "properties.jsonl"))]
    checks = []
    na = []
    for p in props:
        pid = p["id"]
        if pid in CHECKS:
            c = CHECKS[pid]
            checks.append({
                "property_id": pid,
                "quick_cmd": f"bin/check {pid} --tier quick",
                "thorough_cmd": f"bin/check {pid} --tier thorough",
                "evidence_file": f"evidence/{pid}.json",
                "replay_cmd_template": f"bin/check {pid} --replay {{path}}",
                "engine": "verif",
                "level_claimed": {"category": c["level"], "text": c["text"], "design_ref": c["ref"]},
                "level_note": c["note"],
                "technique": c["technique"],
            })
        else:
            na.append({"property_id": pid, "reason": NOT_YET.get(pid, "check not built yet in this round (runtime-monitoring design exists in DESIGN.md)")})
    man = {
        "version": 1,
        "setup_cmd": "true",
        "hooks": {
            "guard": "RZIL_COMPILER_VERIF",
            "enable": "none needed: all monitors are attached from the harness process with setattr on the imported classes/modules (verif/contracts.py); the repository carries no hook code",
            "baseline_off_cmd": "cd /repo && /venv/bin/python -m pytest -ra -q -p no:cacheprovider --timeout=900 --continue-on-collection-errors",
            "source_commits": [],
            "add_only": True,
        },
        "engines": [
            {"name": "verif", "path": "verif/", "serves_properties": sorted(CHECKS), "kind_free_text":
                "Python package: compile harness with fork-per-case isolation and runtime contracts (E1), IL front end = parser + "
                "well-formedness + ownership + sort checker + evaluator (E2), C oracle = behaviour text compiled by gcc -O0 with UBSan "
                "handlers (E3), generators (E4/E5), independent dialect parser (E6)"},
        ],
        "checks": checks,
        "not_applicable": na,
        "notes": "Family: runtime monitoring and sanitizers. Every check observes executions of the real compiler; exit 0 held / 1 VIOLATION / 2 INCONCLUSIVE.",
    }
    with open(os.path.join(HERE, "MANIFEST.json"), "w") as f:
        json.dump(man, f, indent=1)
        f.write("\n")


if __name__ == "__main__":
    main()
