#!/venv/bin/python
"""Self-validation: property-breaking edits (DESIGN section 10). Each entry: id, property, file, old, new.
  tools/mutants.py suite <id>...      run the repository's test suite with the edit in a scratch clone
  tools/mutants.py check <id> <CHECK>...  apply to a scratch worktree, run the quick checks against it
  tools/mutants.py all [PROP...]          every edit against the check of its property
"""
import os
import shutil
import subprocess
import sys
import tempfile

RT = "rzilcompiler/Transformer/RZILTransformer.py"
VT = "rzilcompiler/Transformer/ValueType.py"
M = [
    ("c04_promo16", "C04", VT, "    if pure_type.bit_width >= 32:\n        return pure_type", "    if pure_type.bit_width >= 16:\n        return pure_type"),
    ("c04_mutate_arg", "C04", VT, "    va = deepcopy(a)\n    vb = deepcopy(b)\n\n    if sign_match:", "    va = deepcopy(a)\n    vb = deepcopy(b) if a.bit_width != 128 else b\n\n    if sign_match:"),
    ("c02_add_nopromo", "C02", RT, "        a = self.promotion_cast(a)\n        b = self.promotion_cast(b)\n        a, b = self.cast_operands(a=a, b=b, immutable_a=False)\n        return self.add_op(ArithmeticOp(name, a, b, op_type))",
     "        a, b = self.cast_operands(a=a, b=b, immutable_a=False)\n        return self.add_op(ArithmeticOp(name, a, b, op_type))"),
    ("c02_shr_logical64", "C02", "rzilcompiler/Transformer/Pures/BitOp.py", "            if self.ops[0].value_type.signed:", "            if self.ops[0].value_type.signed and self.ops[0].value_type.bit_width < 64:"),
    ("c02_ne_noinv64", "C02", "rzilcompiler/Transformer/Pures/CompareOp.py", 'code = f"INV(EQ({self.ops[0].il_read()}, {self.ops[1].il_read()}))"', 'code = f"INV(EQ({self.ops[0].il_read()}, {self.ops[1].il_read()}))" if self.ops[0].value_type.bit_width != 64 else f"EQ({self.ops[0].il_read()}, {self.ops[1].il_read()})"'),
    ("c02_cmp_unsigned_le", "C02", "rzilcompiler/Transformer/Pures/CompareOp.py", '            code = f"{sl}LE({self.ops[0].il_read()}, {self.ops[1].il_read()})"', '            code = f"ULE({self.ops[0].il_read()}, {self.ops[1].il_read()})" if self.ops[0].value_type.bit_width == 64 else f"{sl}LE({self.ops[0].il_read()}, {self.ops[1].il_read()})"'),
    ("c03_fill_never16", "C03", "rzilcompiler/Transformer/Pures/Cast.py", "        if self.value_type.signed and self.ops[0].value_type.signed:", "        if self.value_type.signed and self.ops[0].value_type.signed and self.ops[0].value_type.bit_width != 16:"),
    ("c03_elide_cast", "C03", RT, "        if target_type == pure.value_type:\n            return pure\n        if not cast_name:", "        if target_type.bit_width == pure.value_type.bit_width and target_type.bit_width == 8:\n            return pure\n        if target_type == pure.value_type:\n            return pure\n        if not cast_name:"),
    ("c03_ret_signed", "C03", "rzilcompiler/Transformer/Hybrids/SubRoutine.py", '        tmp = "SIGNED(" if self.value_type.signed else "UNSIGNED("\n        tmp += (\n            f"{self.value_type.bit_width}" if self.value_type.bit_width != 0 else "32"\n        )\n        return f\'{tmp}, VARL("ret_val"))\'\n\n\nclass SubRoutineCall',
     '        tmp = "SIGNED(" if self.value_type.signed or self.value_type.bit_width == 16 else "UNSIGNED("\n        tmp += (\n            f"{self.value_type.bit_width}" if self.value_type.bit_width != 0 else "32"\n        )\n        return f\'{tmp}, VARL("ret_val"))\'\n\n\nclass SubRoutineCall'),
    ("c05_for_step_first", "C05", RT, 'self.add_op(Sequence(f"seq", flatten_list(items[4]) + [items[3]])),', 'self.add_op(Sequence(f"seq", [items[3]] + flatten_list(items[4]))),'),
    ("c05_else_dropped_when_nested", "C05", RT, '            else_seq = self.chk_hybrid_dep(\n                self.add_op(Sequence(f"seq_else", flatten_list(items[4])))\n            )', '            else_seq = self.chk_hybrid_dep(\n                self.add_op(Sequence(f"seq_else", flatten_list(items[4])[:3]))\n            )'),
    ("c06_postfix_order", "C06", RT, "        if hybrid.seq_order == HybridSeqOrder.SET_VAL_THEN_EXEC:\n            h_seq = [set_tmp, hybrid]", "        if hybrid.seq_order == HybridSeqOrder.SET_VAL_THEN_EXEC:\n            h_seq = [hybrid, set_tmp] if hybrid.value_type.bit_width == 64 else [set_tmp, hybrid]"),
    ("c07_imm_u_signed", "C07", VT, '    if re.search(r"[rRsS]", imm_char):', '    if re.search(r"[rRsSm]", imm_char):'),
    ("c07_alias64", "C07", "rzilcompiler/HexagonExtensions.py", '        if alias == "upcycle" or alias == "pktcount" or alias == "utimer":', '        if alias == "upcycle" or alias == "pktcount":'),
    ("c09_fold_sub_swapped", "C09", RT, '            case "-":\n                result = val_a - val_b', '            case "-":\n                result = val_a - val_b if val_a >= val_b else val_b - val_a'),
    ("c10_seqn_count", "C10", "rzilcompiler/Transformer/Effects/Sequence.py", "        return f'SEQN({len(self.effects)}, ", "        return f'SEQN({len(self.effects) if len(self.effects) != 7 else 6}, "),
    ("c11_getter_case", "C11", "rzilcompiler/Compiler.py", '            name = f"hex_il_op_{insn_name.lower()}"', '            name = f"hex_il_op_{insn_name.lower()[:18]}"'),
    ("c12_reads_gt2", "C12", "rzilcompiler/Transformer/Pures/PureExec.py", "        if self.reads > 1:\n            return f\"DUP({self.pure_var()})\"", "        if self.reads > 1 and not (self.reads == 2 and len(self.ops) == 3):\n            return f\"DUP({self.pure_var()})\""),
    ("c13_cond_else_only", "C13", "rzilcompiler/HexagonExtensions.py", '        elif token == "jump":\n            self.set_branches()', '        elif token == "jump":\n            self.set_branches()\n            self.is_conditional = False'),
    ("c14_hybrids_not_cleared", "C14", RT, "        self.ext.reset_flags()\n        self.il_ops_holder.hybrid_effect_dict.clear()\n", "        self.ext.reset_flags()\n"),
    ("c15_continue_ok", "C15", RT, '            "GOTO",\n            "CONTINUE",\n            "BREAK",', '            "GOTO",\n            "BREAK",'),
    ("c16_exec_skips_ternary", "C16", RT, "        for op in holder.exec_ops.values():\n            if isinstance(op, Hybrid):\n                continue", "        for op in holder.exec_ops.values():\n            if isinstance(op, Hybrid) or (isinstance(op, Ternary) and len(holder.exec_ops) > 12):\n                continue"),
    ("c18_unordered", "C18", "rzilcompiler/Parser.py", "pool.imap(parse_single, args), total=len(args)", "pool.imap_unordered(parse_single, args), total=len(args)"),
    ("c18_partial_asts", "C18", "rzilcompiler/Parser.py", "        pinsn = ParsedInsn(name, [], behaviors, ParserException(e))", "        pinsn = ParsedInsn(name, asts, behaviors, ParserException(e))"),
    ("c19_nongreedy", "C19", "rzilcompiler/Preprocessor/Hexagon/PreprocessorHexagon.py", '(\\w+), (.+)\\)$", line, re.ASCII)', '(\\w+), (.+?)\\)$", line)'),
    ("c20_patch_dups", "C20", "rzilcompiler/Preprocessor/Hexagon/PreprocessorHexagon.py", "            if m_name in succ_patched:\n                # Patched macro already added. Continue.\n                continue\n            elif", "            if False:\n                continue\n            elif"),
]


def find(mid):
    for m in M:
        if m[0] == mid:
            return m
    raise SystemExit(f"unknown mutant {mid}")


def apply(root, m):
    p = os.path.join(root, m[2])
    s = open(p).read()
    if s.count(m[3]) != 1:
        raise SystemExit(f"{m[0]}: anchor occurs {s.count(m[3])} times in {m[2]}")
    open(p, "w").write(s.replace(m[3], m[4]))


def suite(ids):
    procs = []
    for mid in ids:
        m = find(mid)
        d = tempfile.mkdtemp(prefix=f"mut-{mid}-")
        subprocess.run(["git", "clone", "-q", "/repo", d], check=True)
        apply(d, m)
        procs.append((mid, d, subprocess.Popen(["/venv/bin/python", "-m", "pytest", "-q", "-p", "no:cacheprovider", "--timeout=900"], cwd=d,
                                               stdout=subprocess.PIPE, stderr=subprocess.STDOUT, text=True)))
    for mid, d, p in procs:
        out = p.communicate()[0]
        print(mid, "SUITE:", out.strip().split("\n")[-1])
        shutil.rmtree(d, ignore_errors=True)


def check(mid, checks):
    """the edit is applied to a scratch worktree of /repo's HEAD under /tmp (removed afterwards); the checks run against it (VERIF_REPO)"""
    m = find(mid)
    wt = f"/tmp/wt_mut_{mid}"
    subprocess.run(["git", "-C", "/repo", "worktree", "add", "-q", "--detach", wt, "HEAD"], check=True)
    V = os.path.dirname(os.path.dirname(os.path.abspath(__file__)))
    try:
        apply(wt, m)
        for c in checks:
            r = subprocess.run(["bin/check", c, "--tier", "quick"], cwd=V, capture_output=True, text=True, env=dict(os.environ, VERIF_REPO=wt))
            v = [l for l in r.stdout.split("\n") if l.startswith("VIOLATION")]
            print(f"{mid} on {c}: exit {r.returncode}; {len(v)} VIOLATION lines; first: {(v[0][:260] if v else r.stdout.strip().split(chr(10))[-1][:200])}", flush=True)
            if r.returncode not in (0, 1):
                print(r.stderr[-800:])
            subprocess.run(["git", "-C", V, "checkout", "--", f"evidence/{c}.json"], check=False)
    finally:
        subprocess.run(["git", "-C", "/repo", "worktree", "remove", "--force", wt], check=False)


if __name__ == "__main__":
    if sys.argv[1] == "suite":
        suite(sys.argv[2:] or [m[0] for m in M])
    elif sys.argv[1] == "check":
        check(sys.argv[2], sys.argv[3:] or [find(sys.argv[2])[1]])
    elif sys.argv[1] == "all":
        for m in M:
            if not sys.argv[2:] or m[1] in sys.argv[2:]:
                check(m[0], [m[1]])
