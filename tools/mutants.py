#!/venv/bin/python
"""Self-validation: property-breaking edits (DESIGN section 10). Each entry: id, property, file, old, new.
  tools/mutants.py suite <id>...      run the repository's test suite with the edit in a scratch clone
  tools/mutants.py check <id> <CHECK>...  apply to /repo, run the quick checks, undo
"""
import os
import shutil
import subprocess
import sys
import tempfile

RT = "rzilcompiler/Transformer/RZILTransformer.py"
VT = "rzilcompiler/Transformer/ValueType.py"
M = [
    ("c04_ge", "C04", VT, "    if unsigned.bit_width >= signed.bit_width:", "    if unsigned.bit_width > signed.bit_width:"),
    ("c04_promo16", "C04", VT, "    if pure_type.bit_width >= 32:\n        return pure_type", "    if pure_type.bit_width >= 16:\n        return pure_type"),
    ("c04_alias", "C04", VT, "    va = deepcopy(a)\n    vb = deepcopy(b)\n\n    if sign_match:", "    va = a\n    vb = deepcopy(b)\n\n    if sign_match:"),
    ("c02_cmp_sl", "C02", "rzilcompiler/Transformer/Pures/CompareOp.py", "            if (self.ops[0].value_type.signed or self.ops[1].value_type.signed)", "            if (self.ops[0].value_type.signed)"),
    ("c02_add_nopromo", "C02", RT, "        if op_type != ArithmeticType.MOD:\n            # Modular operations don't need matching types.\n            a = self.promotion_cast(a)\n            b = self.promotion_cast(b)\n            a, b = self.cast_operands(a=a, b=b, immutable_a=False)\n        return self.add_op(ArithmeticOp(name, a, b, op_type))",
     "        if op_type != ArithmeticType.MOD:\n            # Modular operations don't need matching types.\n            a, b = self.cast_operands(a=a, b=b, immutable_a=False)\n        return self.add_op(ArithmeticOp(name, a, b, op_type))"),
    ("c02_shr_logical64", "C02", "rzilcompiler/Transformer/Pures/BitOp.py", "            if self.ops[0].value_type.signed:", "            if self.ops[0].value_type.signed and self.ops[0].value_type.bit_width < 64:"),
    ("c02_ne_noinv", "C02", "rzilcompiler/Transformer/Pures/CompareOp.py", 'code = f"INV(EQ({self.ops[0].il_read()}, {self.ops[1].il_read()}))"', 'code = f"INV(EQ({self.ops[0].il_read()}, {self.ops[1].il_read()}))" if self.ops[0].value_type.bit_width != 16 else f"EQ({self.ops[0].il_read()}, {self.ops[1].il_read()})"'),
    ("c03_fill_target", "C03", "rzilcompiler/Transformer/Pures/Cast.py", "        if self.value_type.signed and self.ops[0].value_type.signed:", "        if self.value_type.signed:"),
    ("c03_fill_never16", "C03", "rzilcompiler/Transformer/Pures/Cast.py", "        if self.value_type.signed and self.ops[0].value_type.signed:", "        if self.value_type.signed and self.ops[0].value_type.signed and self.ops[0].value_type.bit_width != 16:"),
    ("c03_elide_cast", "C03", RT, "        if target_type == pure.value_type:\n            return pure\n        if not cast_name:", "        if target_type.bit_width == pure.value_type.bit_width and target_type.bit_width == 8:\n            return pure\n        if target_type == pure.value_type:\n            return pure\n        if not cast_name:"),
]


def find(mid):
    for m in M:
        if m[0] == mid:
            return m
    raise SystemExit(f"unknown mutant {mid}")


def apply(root, m):
    p = os.path.join(root, m[2])
    s = open(p).read()
    if s.count(m[3]) != 1:
        raise SystemExit(f"{m[0]}: anchor occurs {s.count(m[3])} times in {m[2]}")
    open(p, "w").write(s.replace(m[3], m[4]))


def suite(ids):
    procs = []
    for mid in ids:
        m = find(mid)
        d = tempfile.mkdtemp(prefix=f"mut-{mid}-")
        subprocess.run(["git", "clone", "-q", "/repo", d], check=True)
        apply(d, m)
        procs.append((mid, d, subprocess.Popen(["/venv/bin/python", "-m", "pytest", "-q", "-p", "no:cacheprovider", "--timeout=900"], cwd=d,
                                               stdout=subprocess.PIPE, stderr=subprocess.STDOUT, text=True)))
    for mid, d, p in procs:
        out = p.communicate()[0]
        print(mid, "SUITE:", out.strip().split("\n")[-1])
        shutil.rmtree(d, ignore_errors=True)


def check(mid, checks):
    m = find(mid)
    subprocess.run(["git", "-C", "/repo", "diff", "--quiet"], check=True)
    try:
        apply("/repo", m)
        for c in checks:
            r = subprocess.run(["bin/check", c, "--tier", "quick"], cwd=os.path.dirname(os.path.dirname(os.path.abspath(__file__))), capture_output=True, text=True)
            v = [l for l in r.stdout.split("\n") if l.startswith("VIOLATION")]
            print(f"{mid} on {c}: exit {r.returncode}; {len(v)} VIOLATION lines; first: {(v[0][:260] if v else r.stdout.strip().split(chr(10))[-1][:200])}")
            if r.returncode not in (0, 1):
                print(r.stderr[-800:])
    finally:
        subprocess.run(["git", "-C", "/repo", "checkout", "--", "."], check=True)


if __name__ == "__main__":
    if sys.argv[1] == "suite":
        suite(sys.argv[2:] or [m[0] for m in M])
    elif sys.argv[1] == "check":
        check(sys.argv[2], sys.argv[3:] or [find(sys.argv[2])[1]])
    elif sys.argv[1] == "all":
        for m in M:
            if not sys.argv[2:] or m[1] in sys.argv[2:]:
                check(m[0], [m[1]])
