#!/bin/sh
# tools/reseed_all.sh [names...] : re-apply every stored seeded change (each in its own scratch worktree of /repo's HEAD under /tmp, removed
# afterwards), run the quick check of its property against that worktree. Prints one line per seed; a seed whose owning check exits 0
# is a regression of the framework.
cd "$(dirname "$0")/.."
names="$@"
[ -z "$names" ] && names=$(ls seeded)
for n in $names; do
  prop=$(python3 -c "import json;print(json.load(open('seeded/$n/meta.json'))['property'])")
  extra=$(python3 -c "import json;print(' '.join(json.load(open('seeded/$n/meta.json')).get('also_checks',[])))")
  wt=/tmp/wt_rs_$n
  git -C /repo worktree add -q --detach $wt HEAD || continue
  if git -C $wt apply /verif/seeded/$n/patch.diff 2>/dev/null; then
    cp seeded/$n/meta.json /tmp/meta_$n.bak
    WT=$wt tools/try_seed.py $n $prop $prop $extra 2>&1 | grep " on " | sed 's/; first:.*//'
    cp /tmp/meta_$n.bak seeded/$n/meta.json; rm -f /tmp/meta_$n.bak
  else
    echo "$n: patch no longer applies to HEAD"
  fi
  git -C /repo worktree remove --force $wt
done
git -C /repo worktree prune
